import Pysmi.Model.Cli
import Pysmi.Generated.Cli
/-!
# C20 — command-line tools report and leave on disk exactly what happened

* `C20_exit`: mibdump's exit code is `EX_OK` iff no module of the status map is `missing` or `failed` (the codes are
  regenerated from the script and pinned: 0 / 64 / 70 / 79 / 79).
* `C20_report`: a module is listed under a category iff the status map gives it that status; with distinct keys no module
  is listed twice; each category is printed in sorted order.
* `C20_mibcopy_latest`: after the copy loop, for every source file seen the destination holds that module with a revision at
  least as new; `C20_mibcopy_provenance`: what the destination holds is what it held before or one of the files seen;
  `C20_mibcopy_order_irrelevant`: the revision finally stored for every module is the same for every visiting order.
* `C20_mibcopy_epoch_witness`: the pinned script (an absent destination compared as the epoch) never copies a module
  without a REVISION clause into an empty destination.

That the files on disk are the modules reported created or borrowed is `C07_written_iff_reported` + `C13_atomic` /
`C13_dryrun` for the library; for the scripts it is checked by running them as subprocesses (option parsing and wiring are
exercised, not modelled: partial).
-/
namespace Pysmi.Cli
open Pysmi.Compile (Status)

theorem C20_exit (ex : ExitCodes) (h1 : ex.missing ≠ ex.ok) (h2 : ex.failed ≠ ex.ok) (p : StatusMap) :
    mibdumpExit ex p = ex.ok ↔ (∀ e ∈ p, e.2 ≠ .missing ∧ e.2 ≠ .failed) := by
  unfold mibdumpExit
  constructor
  · intro h e he
    by_cases hf : p.any (·.2 = .failed) = true
    · simp only [hf, if_true] at h; exact absurd h h2
    · simp only [hf, if_false] at h
      by_cases hm : p.any (·.2 = .missing) = true
      · simp only [hm, if_true] at h; exact absurd h h1
      · constructor
        · intro hc; apply hm; exact List.any_eq_true.mpr ⟨e, he, by simp [hc]⟩
        · intro hc; apply hf; exact List.any_eq_true.mpr ⟨e, he, by simp [hc]⟩
  · intro h
    have hf : p.any (·.2 = .failed) = false := by
      apply Bool.eq_false_iff.mpr
      intro hc
      obtain ⟨e, he, hs⟩ := List.any_eq_true.mp hc
      exact (h e he).2 (by simpa using hs)
    have hm : p.any (·.2 = .missing) = false := by
      apply Bool.eq_false_iff.mpr
      intro hc
      obtain ⟨e, he, hs⟩ := List.any_eq_true.mp hc
      exact (h e he).1 (by simpa using hs)
    simp [hf, hm]

theorem C20_report (p : StatusMap) (s : Status) (n : String) : n ∈ category p s ↔ (n, s) ∈ p := by
  unfold category
  rw [(List.mergeSort_perm _ _).mem_iff]
  simp only [List.mem_map, List.mem_filter, decide_eq_true_eq]
  constructor
  · rintro ⟨e, ⟨he, hs⟩, rfl⟩
    rw [← hs]; exact he
  · intro h; exact ⟨(n, s), ⟨h, rfl⟩, rfl⟩

theorem C20_report_once (p : StatusMap) (hk : ∀ n s s', (n, s) ∈ p → (n, s') ∈ p → s = s') (s s' : Status) (n : String)
    (h1 : n ∈ category p s) (h2 : n ∈ category p s') : s = s' :=
  hk n s s' ((C20_report p s n).mp h1) ((C20_report p s' n).mp h2)

/-! ### mibcopy -/

/-- the revision value the destination holds for a module -/
def val (d : List (String × Rev × Nat)) (n : String) : Option Nat := (lookupDst d n).map (fun v => revValue v.1)

/-- the copy step as a function of the destination alone (what `copyStep true` does when the cache mirrors the destination) -/
def copyStep' (d : List (String × Rev × Nat)) (s : Src) : List (String × Rev × Nat) :=
  match val d s.name with
  | some r => if r ≥ revValue s.rev then d else setDst d s.name (s.rev, s.file)
  | none => setDst d s.name (s.rev, s.file)

theorem lookup_filter_ne {β : Type} (d : List (String × β)) (n n' : String) (h : n' ≠ n) :
    (d.filter (fun e => e.1 != n)).lookup n' = d.lookup n' := by
  induction d with
  | nil => rfl
  | cons e rest ih =>
    obtain ⟨k, v⟩ := e
    by_cases hk : k = n
    · subst hk
      have e1 : (n' == k) = false := by simpa using h
      have e2 : (k != k) = false := by simp
      simp only [List.filter_cons, e2, Bool.false_eq_true, if_false, List.lookup_cons, e1]
      exact ih
    · have e2 : (k != n) = true := by simpa using hk
      simp only [List.filter_cons, e2, if_true, List.lookup_cons]
      rw [ih]

theorem lookupDst_setDst (d : List (String × Rev × Nat)) (n n' : String) (v : Rev × Nat) :
    lookupDst (setDst d n v) n' = if n' = n then some v else lookupDst d n' := by
  unfold lookupDst setDst
  by_cases h : n' = n
  · subst h; simp [List.lookup_cons]
  · have : (n' == n) = false := by simpa using h
    simp [List.lookup_cons, this, h, lookup_filter_ne d n n' h]

theorem lookup_setCache (c : List (String × Option Nat)) (n n' : String) (v : Option Nat) :
    (setCache c n v).lookup n' = if n' = n then some v else c.lookup n' := by
  unfold setCache
  by_cases h : n' = n
  · subst h; simp [List.lookup_cons]
  · have : (n' == n) = false := by simpa using h
    simp [List.lookup_cons, this, h, lookup_filter_ne c n n' h]

/-- the script's cache never disagrees with the destination -/
def CacheOk (st : CopyState) : Prop := ∀ n r, st.cache.lookup n = some r → r = val st.dst n

theorem dstRevOf_eq (st : CopyState) (h : CacheOk st) (n : String) : dstRevOf st n = val st.dst n := by
  unfold dstRevOf
  cases hc : st.cache.lookup n with
  | some r => exact h _ _ hc
  | none => rfl

theorem cacheLooked_ok (st : CopyState) (h : CacheOk st) (n : String) :
    ∀ n' r, (cacheLooked st n (val st.dst n)).lookup n' = some r → r = val st.dst n' := by
  intro n' r hl
  unfold cacheLooked at hl
  cases hc : st.cache.lookup n with
  | some r0 => simp only [hc] at hl; exact h n' r hl
  | none =>
    simp only [hc, lookup_setCache] at hl
    by_cases hn : n' = n
    · simp only [hn, if_true] at hl; cases hl; rw [hn]
    · simp only [hn, if_false] at hl; exact h n' r hl

theorem copyStep_eq (st : CopyState) (s : Src) (h : CacheOk st) :
    (copyStep true st s).dst = copyStep' st.dst s ∧ CacheOk (copyStep true st s) := by
  unfold copyStep copyStep'
  rw [dstRevOf_eq st h]
  have hcl := cacheLooked_ok st h s.name
  cases hv : val st.dst s.name with
  | none =>
    simp only [skipTest, if_true, Bool.false_eq_true, if_false]
    refine ⟨trivial, ?_⟩
    intro n r hl
    simp only [lookup_setCache] at hl
    unfold val
    rw [lookupDst_setDst]
    by_cases hn : n = s.name
    · simp only [hn, if_true] at hl ⊢
      cases hl; rfl
    · simp only [hn, if_false] at hl ⊢
      rw [hv] at hcl
      exact hcl n r hl
  | some r0 =>
    by_cases hge : r0 ≥ revValue s.rev
    · simp only [skipTest, hge, decide_true, if_true]
      refine ⟨trivial, ?_⟩
      intro n r hl
      rw [hv] at hcl
      exact hcl n r hl
    · simp only [skipTest, hge, decide_false, Bool.false_eq_true, if_false]
      refine ⟨trivial, ?_⟩
      intro n r hl
      simp only [lookup_setCache] at hl
      unfold val
      rw [lookupDst_setDst]
      by_cases hn : n = s.name
      · simp only [hn, if_true] at hl ⊢
        cases hl; rfl
      · simp only [hn, if_false] at hl ⊢
        rw [hv] at hcl
        exact hcl n r hl

theorem mibcopy_dst (d0 : List (String × Rev × Nat)) (srcs : List Src) :
    (mibcopy true d0 srcs).dst = srcs.foldl copyStep' d0 := by
  unfold mibcopy
  suffices ∀ st, CacheOk st → (srcs.foldl (copyStep true) st).dst = srcs.foldl copyStep' st.dst from
    this { dst := d0, cache := [] } (by intro n r h; simp at h)
  induction srcs with
  | nil => intro st _; rfl
  | cons s rest ih =>
    intro st hst
    obtain ⟨h1, h2⟩ := copyStep_eq st s hst
    simp only [List.foldl_cons]
    rw [ih _ h2, h1]

/-- how one step changes the stored revision of each module -/
def upd (acc : Option Nat) (x : Nat) : Option Nat := some (match acc with | none => x | some r => max r x)

theorem val_copyStep' (d : List (String × Rev × Nat)) (s : Src) (n : String) :
    val (copyStep' d s) n = if n = s.name then upd (val d s.name) (revValue s.rev) else val d n := by
  unfold copyStep'
  cases hv : val d s.name with
  | none =>
    simp only [upd]
    unfold val
    rw [lookupDst_setDst]
    by_cases hn : n = s.name <;> simp [hn]
  | some r =>
    by_cases hge : r ≥ revValue s.rev
    · simp only [hge, if_true, upd]
      by_cases hn : n = s.name
      · simp only [hn, if_true, hv]; congr 1; omega
      · simp [hn]
    · simp only [hge, if_false, upd]
      unfold val
      rw [lookupDst_setDst]
      by_cases hn : n = s.name
      · simp only [hn, if_true, Option.map_some]; congr 1; omega
      · simp [hn]

theorem val_fold (srcs : List Src) : ∀ (d : List (String × Rev × Nat)) (n : String),
    val (srcs.foldl copyStep' d) n = ((srcs.filter (·.name = n)).map (fun s => revValue s.rev)).foldl upd (val d n) := by
  induction srcs with
  | nil => intro d n; rfl
  | cons s rest ih =>
    intro d n
    simp only [List.foldl_cons]
    rw [ih, val_copyStep']
    by_cases hn : s.name = n
    · subst hn
      simp [List.filter_cons]
    · have hn' : ¬ n = s.name := fun e => hn e.symm
      have e1 : decide (s.name = n) = false := by simpa using hn
      simp only [List.filter_cons, e1, Bool.false_eq_true, if_false, hn']

theorem upd_comm (z : Option Nat) (x y : Nat) : upd (upd z x) y = upd (upd z y) x := by
  cases z <;> simp [upd] <;> omega

/-- **C20_mibcopy_order_irrelevant** -/
theorem C20_mibcopy_order_irrelevant (d0 : List (String × Rev × Nat)) (srcs srcs' : List Src) (hp : srcs.Perm srcs') (n : String) :
    val (mibcopy true d0 srcs).dst n = val (mibcopy true d0 srcs').dst n := by
  rw [mibcopy_dst, mibcopy_dst, val_fold, val_fold]
  apply List.Perm.foldl_eq'
  · exact (hp.filter _).map _
  · intro x _ y _ z; exact upd_comm z x y

theorem foldl_upd_ge (l : List Nat) : ∀ (acc : Option Nat) (x : Nat), (x ∈ l ∨ ∃ r, acc = some r ∧ r ≥ x) →
    ∃ r, l.foldl upd acc = some r ∧ r ≥ x := by
  induction l with
  | nil =>
    intro acc x h
    rcases h with h | ⟨r, hr, hge⟩
    · simp at h
    · exact ⟨r, hr, hge⟩
  | cons y rest ih =>
    intro acc x h
    simp only [List.foldl_cons]
    apply ih
    rcases h with h | ⟨r, hr, hge⟩
    · rcases List.mem_cons.mp h with rfl | h
      · right
        cases acc with
        | none => exact ⟨x, rfl, Nat.le_refl _⟩
        | some r => exact ⟨max r x, rfl, Nat.le_max_right _ _⟩
      · left; exact h
    · right
      subst hr
      exact ⟨max r y, rfl, by omega⟩

/-- **C20_mibcopy_latest** -/
theorem C20_mibcopy_latest (d0 : List (String × Rev × Nat)) (srcs : List Src) (s : Src) (hs : s ∈ srcs) :
    ∃ r, val (mibcopy true d0 srcs).dst s.name = some r ∧ r ≥ revValue s.rev := by
  rw [mibcopy_dst, val_fold]
  apply foldl_upd_ge
  left
  exact List.mem_map.mpr ⟨s, List.mem_filter.mpr ⟨hs, by simp⟩, rfl⟩

/-- **C20_mibcopy_provenance** -/
theorem C20_mibcopy_provenance (srcs : List Src) : ∀ (d0 : List (String × Rev × Nat)) (n : String) (v : Rev × Nat),
    lookupDst (mibcopy true d0 srcs).dst n = some v →
    lookupDst d0 n = some v ∨ ∃ s ∈ srcs, s.name = n ∧ v = (s.rev, s.file) := by
  intro d0 n v
  rw [mibcopy_dst]
  induction srcs generalizing d0 with
  | nil => intro h; exact Or.inl h
  | cons s rest ih =>
    intro h
    simp only [List.foldl_cons] at h
    rcases ih _ h with h1 | ⟨s', hs', hn, hv⟩
    · -- what the first step left for n
      unfold copyStep' at h1
      have key : lookupDst d0 n = some v ∨ (s.name = n ∧ v = (s.rev, s.file)) := by
        cases hval : val d0 s.name with
        | none =>
          simp only [hval] at h1
          rw [lookupDst_setDst] at h1
          by_cases hn : n = s.name
          · simp only [hn, if_true] at h1
            right; exact ⟨hn.symm, by cases h1; rfl⟩
          · simp only [hn, if_false] at h1; left; exact h1
        | some r =>
          simp only [hval] at h1
          by_cases hge : r ≥ revValue s.rev
          · simp only [hge, if_true] at h1; left; exact h1
          · simp only [hge, if_false] at h1
            rw [lookupDst_setDst] at h1
            by_cases hn : n = s.name
            · simp only [hn, if_true] at h1
              right; exact ⟨hn.symm, by cases h1; rfl⟩
            · simp only [hn, if_false] at h1; left; exact h1
      rcases key with k | ⟨k1, k2⟩
      · exact Or.inl k
      · exact Or.inr ⟨s, by simp, k1, k2⟩
    · exact Or.inr ⟨s', List.mem_cons_of_mem _ hs', hn, hv⟩

/-! ### `mibcopy --dry-run` -/

theorem copyStepDry_dst (a : Bool) (st : CopyState) (s : Src) : (copyStepDry a st s).dst = st.dst := by
  unfold copyStepDry; split <;> rfl

/-- **C20_mibcopy_dry_run**: a dry run leaves the destination as it found it, whatever the sources and their order. -/
theorem C20_mibcopy_dry_run (a : Bool) (srcs : List Src) : ∀ (st : CopyState),
    (srcs.foldl (copyStepDry a) st).dst = st.dst := by
  induction srcs with
  | nil => intro st; rfl
  | cons s rest ih => intro st; simp only [List.foldl_cons]; rw [ih, copyStepDry_dst]

/-- what the dry run and the real run have in common: the script's revision cache, and - for every name the cache does not
hold yet - what the destination holds -/
def DrySim (real dry : CopyState) : Prop :=
  real.cache = dry.cache ∧ ∀ n, dry.cache.lookup n = none → lookupDst real.dst n = lookupDst dry.dst n

theorem dstRevOf_sim (real dry : CopyState) (h : DrySim real dry) (n : String) : dstRevOf real n = dstRevOf dry n := by
  unfold dstRevOf
  rw [h.1]
  cases hc : dry.cache.lookup n with
  | some r => rfl
  | none => simp only; rw [h.2 n hc]

theorem cacheLooked_lookup_self (st : CopyState) (n : String) (r : Option Nat) : ((cacheLooked st n r).lookup n).isSome = true := by
  unfold cacheLooked
  cases hc : st.cache.lookup n with
  | some r0 => simp [hc]
  | none => simp [hc, lookup_setCache]

theorem cacheLooked_lookup_ne (st : CopyState) (n n' : String) (r : Option Nat) (h : n' ≠ n) :
    (cacheLooked st n r).lookup n' = st.cache.lookup n' := by
  unfold cacheLooked
  cases hc : st.cache.lookup n with
  | some r0 => rfl
  | none => simp [lookup_setCache, h]

theorem drySim_step (a : Bool) (real dry : CopyState) (s : Src) (h : DrySim real dry) :
    DrySim (copyStep a real s) (copyStepDry a dry s) := by
  have hrev := dstRevOf_sim real dry h s.name
  have hcl : cacheLooked real s.name (dstRevOf dry s.name) = cacheLooked dry s.name (dstRevOf dry s.name) := by
    unfold cacheLooked; rw [h.1]
  unfold copyStep copyStepDry
  rw [hrev]
  split
  · -- skipped in both
    refine ⟨by simp only; rw [hcl], ?_⟩
    intro n hn
    simp only at hn ⊢
    by_cases hne : n = s.name
    · subst hne
      have := cacheLooked_lookup_self dry s.name (dstRevOf dry s.name)
      rw [hn] at this; cases this
    · rw [cacheLooked_lookup_ne dry s.name n _ hne] at hn
      exact h.2 n hn
  · -- copied in the real run, recorded in both
    refine ⟨by simp only; rw [hcl], ?_⟩
    intro n hn
    simp only at hn ⊢
    by_cases hne : n = s.name
    · subst hne
      rw [lookup_setCache] at hn
      simp at hn
    · rw [lookup_setCache, if_neg hne, cacheLooked_lookup_ne dry s.name n _ hne] at hn
      rw [lookupDst_setDst, if_neg hne]
      exact h.2 n hn

/-- **C20_mibcopy_dry_report**: every decision of a dry run (copy / do not copy, hence every COPIED / NOT COPIED line of the
report) is the decision the real run takes at that point: the revision caches of the two runs are equal after any prefix of
the sources. -/
theorem C20_mibcopy_dry_report (a : Bool) (srcs : List Src) : ∀ (real dry : CopyState), DrySim real dry →
    DrySim (srcs.foldl (copyStep a) real) (srcs.foldl (copyStepDry a) dry) := by
  induction srcs with
  | nil => intro real dry h; exact h
  | cons s rest ih => intro real dry h; simp only [List.foldl_cons]; exact ih _ _ (drySim_step a real dry s h)

theorem C20_mibcopy_dry (a : Bool) (dst : List (String × Rev × Nat)) (srcs : List Src) :
    (mibcopyDry a dst srcs).dst = dst ∧ (mibcopyDry a dst srcs).cache = (mibcopy a dst srcs).cache := by
  refine ⟨C20_mibcopy_dry_run a srcs _, ?_⟩
  exact (C20_mibcopy_dry_report a srcs { dst := dst, cache := [] } { dst := dst, cache := [] } ⟨rfl, fun _ _ => rfl⟩).1.symm

example : (mibcopyDry true [] [⟨"A", some 5, 1⟩, ⟨"A", some 3, 2⟩]).dst = [] ∧
    (mibcopyDry true [] [⟨"A", some 5, 1⟩, ⟨"A", some 3, 2⟩]).cache = [("A", some 5)] := by decide

/-- **C20_mibcopy_epoch_witness**: with an absent destination compared as the epoch (the pinned script), a module without a
REVISION clause is never copied into an empty destination; with the repaired comparison it is. -/
theorem C20_mibcopy_epoch_witness :
    (mibcopy false [] [⟨"A-MIB", none, 1⟩]).dst = [] ∧ (mibcopy true [] [⟨"A-MIB", none, 1⟩]).dst = [("A-MIB", none, 1)] := by
  decide

end Pysmi.Cli

/-! ### the revision of a module is its latest REVISION clause -/
namespace Pysmi.Cli

theorem foldl_max_spec (rs : List Nat) (r : Nat) :
    r ≤ rs.foldl max r ∧ (∀ x ∈ rs, x ≤ rs.foldl max r) ∧ (rs.foldl max r = r ∨ rs.foldl max r ∈ rs) := by
  induction rs generalizing r with
  | nil => simp
  | cons a rs ih =>
    obtain ⟨h1, h2, h3⟩ := ih (max r a)
    simp only [List.foldl_cons]
    refine ⟨by omega, ?_, ?_⟩
    · intro x hx
      rcases List.mem_cons.mp hx with hx | hx
      · subst hx; omega
      · exact h2 x hx
    · rcases h3 with h3 | h3
      · by_cases hra : a ≤ r
        · left; rw [h3]; omega
        · right; rw [h3]; simp; left; omega
      · right; exact List.mem_cons_of_mem _ h3

/-- **C20_revision_latest**: the revision reported for a module is one of its REVISION clauses and no clause is later -
whatever the order of the clauses (before repair of `genModuleIdentity` it was the clause written first, so an edition that
lists its history oldest first counted as old as its first revision); without a clause there is none. -/
theorem C20_revision_latest (revs : List Nat) :
    (revs = [] → moduleRevision revs = none) ∧
    (∀ m, moduleRevision revs = some m → m ∈ revs ∧ ∀ r ∈ revs, r ≤ m) ∧
    (revs ≠ [] → ∃ m, moduleRevision revs = some m) := by
  refine ⟨fun h => by subst h; rfl, ?_, ?_⟩
  · intro m hm
    cases revs with
    | nil => simp [moduleRevision] at hm
    | cons r rs =>
      simp only [moduleRevision, Option.some.injEq] at hm
      obtain ⟨h1, h2, h3⟩ := foldl_max_spec rs r
      rw [hm] at h1 h2 h3
      refine ⟨?_, ?_⟩
      · rcases h3 with h3 | h3
        · rw [h3]; simp
        · exact List.mem_cons_of_mem _ h3
      · intro x hx
        rcases List.mem_cons.mp hx with hx | hx
        · subst hx; exact h1
        · exact h2 x hx
  · intro h
    cases revs with
    | nil => exact absurd rfl h
    | cons r rs => exact ⟨_, rfl⟩

/-- **C20_revision_order_irrelevant**: two modules that carry the same REVISION clauses in different orders have the same
revision - so which of two editions `mibcopy` keeps does not depend on how either writes its history. -/
theorem C20_revision_order_irrelevant (a b : List Nat) (h : a.Perm b) : moduleRevision a = moduleRevision b := by
  by_cases ha : a = []
  · subst ha
    have : b = [] := List.Perm.nil_eq h ▸ rfl
    subst this; rfl
  · have hb : b ≠ [] := fun hb => ha (by subst hb; exact List.Perm.eq_nil h)
    obtain ⟨ma, hma⟩ := (C20_revision_latest a).2.2 ha
    obtain ⟨mb, hmb⟩ := (C20_revision_latest b).2.2 hb
    obtain ⟨ha1, ha2⟩ := (C20_revision_latest a).2.1 ma hma
    obtain ⟨hb1, hb2⟩ := (C20_revision_latest b).2.1 mb hmb
    have h1 : mb ≤ ma := ha2 mb (h.mem_iff.mpr hb1)
    have h2 : ma ≤ mb := hb2 ma (h.mem_iff.mp ha1)
    rw [hma, hmb]
    congr 1
    omega

/-- **C20_later_edition_newer**: an edition that carries the clauses of an earlier edition (in any order, anywhere) and one
clause later than all of them has exactly that clause as its revision - it is the newer of the two for `mibcopy`, however it
writes its history. -/
theorem C20_later_edition_newer (old new : List Nat) (r : Nat) (hp : new.Perm (r :: old)) (hr : ∀ x ∈ old, x < r) :
    moduleRevision new = some r ∧ ∀ m, moduleRevision old = some m → m < r := by
  constructor
  · rw [C20_revision_order_irrelevant new (r :: old) hp]
    obtain ⟨m, hm⟩ := (C20_revision_latest (r :: old)).2.2 (by simp)
    obtain ⟨hmem, hge⟩ := (C20_revision_latest (r :: old)).2.1 m hm
    rw [hm]
    congr 1
    have h1 : r ≤ m := hge r (by simp)
    rcases List.mem_cons.mp hmem with h | h
    · exact h
    · have := hr m h; omega
  · intro m hm
    exact hr m ((C20_revision_latest old).2.1 m hm).1

/-- an edition that lists its history oldest first is as new as its last clause -/
example : moduleRevision [200001010000, 201001010000] = some 201001010000 := by decide
example : moduleRevision [201001010000, 200001010000] = some 201001010000 := by decide

/-! ### borrower repositories on the command line of mibdump -/

theorem borrowerFlavours_append (pre post : List Opt) (f : Bool) :
    borrowerFlavours (pre ++ post) f = borrowerFlavours pre f ++ borrowerFlavours post (f || pre.any Opt.isGen) := by
  induction pre generalizing f with
  | nil => simp [borrowerFlavours]
  | cons o rest ih =>
    cases o with
    | borrower u => simp [borrowerFlavours, ih, Opt.isGen]
    | genTexts => simp [borrowerFlavours, ih, Opt.isGen]
    | other => simp [borrowerFlavours, ih, Opt.isGen]

/-- **C20_borrowers_in_order**: the repositories are filed in the order of the command line, none dropped, none added. -/
theorem C20_borrowers_in_order (os : List Opt) (f : Bool) :
    (borrowerFlavours os f).map (·.1) = os.filterMap (fun o => match o with | .borrower u => some u | _ => none) := by
  induction os generalizing f with
  | nil => rfl
  | cons o rest ih =>
    cases o with
    | borrower u => simp [borrowerFlavours, ih]
    | genTexts => simp [borrowerFlavours, ih]
    | other => simp [borrowerFlavours, ih]

/-- **C20_borrower_flavour**: a repository holds copies with texts exactly when `--generate-mib-texts` stands before it on
the command line; it matches the request of the run (and may deliver) exactly when no `--generate-mib-texts` follows it
without one preceding it. -/
theorem C20_borrower_flavour (pre post : List Opt) (u : String) :
    borrowerFlavours (pre ++ .borrower u :: post) false =
      borrowerFlavours pre false ++ (u, pre.any Opt.isGen) :: borrowerFlavours post (pre.any Opt.isGen) ∧
    ((pre.any Opt.isGen = requestFlavour (pre ++ .borrower u :: post)) ↔ (pre.any Opt.isGen = true ∨ post.any Opt.isGen = false)) := by
  constructor
  · rw [borrowerFlavours_append]
    simp [borrowerFlavours]
  · unfold requestFlavour
    simp only [List.any_append, List.any_cons, Opt.isGen, Bool.false_or]
    cases pre.any Opt.isGen <;> cases post.any Opt.isGen <;> simp

/-- `--mib-borrower=A --generate-mib-texts --mib-borrower=B`: A is a no-texts repository and is passed over, B delivers -/
example : borrowerFlavours [.borrower "A", .genTexts, .borrower "B"] false = [("A", false), ("B", true)] ∧
    requestFlavour [.borrower "A", .genTexts, .borrower "B"] = true := by decide

end Pysmi.Cli

namespace Pysmi.Generated.Cli

/-- the exit codes as the model was written against -/
theorem pin_exit_codes : (EX_OK, EX_USAGE, EX_SOFTWARE, EX_MIB_MISSING, EX_MIB_FAILED) = (0, 64, 70, 79, 79) := rfl

/-- the copy loop compares an absent destination as older than everything (`absentIsOlder = true` in the model) -/
theorem pin_absent_revision : mibcopyAbsentRevision = "datetime.min" := rfl

def codes : Pysmi.Cli.ExitCodes := ⟨EX_OK, EX_USAGE, EX_SOFTWARE, EX_MIB_MISSING, EX_MIB_FAILED⟩

/-- **C20_exit_generated**: with the regenerated codes, exit status 0 iff nothing is missing or failed -/
theorem C20_exit_generated (p : Pysmi.Cli.StatusMap) :
    Pysmi.Cli.mibdumpExit codes p = 0 ↔ (∀ e ∈ p, e.2 ≠ .missing ∧ e.2 ≠ .failed) :=
  Pysmi.Cli.C20_exit codes (by decide) (by decide) p

/-- **C20_index_guard**: every destination format the script accepts either has a code generator that implements
`genIndex`, or `--build-index` is refused for it as a usage error (tables regenerated from the script and the generator
classes on every run) -/
theorem C20_index_guard : ∀ f ∈ mibdumpFormats, f ∈ genIndexFormats ∨ f ∈ mibdumpNoIndexFormats := by decide

/-- with the regenerated tables: `--build-index` for the pysnmp format ends with the usage status and compiles nothing;
every other combination ends with status 0 iff nothing is missing or failed -/
theorem C20_run_generated (buildIndex : Bool) (fmt : String) (p : Pysmi.Cli.StatusMap) :
    (buildIndex = true ∧ fmt ∈ mibdumpNoIndexFormats →
      Pysmi.Cli.mibdumpRun codes mibdumpNoIndexFormats buildIndex fmt p = (64, false)) ∧
    (¬ (buildIndex = true ∧ fmt ∈ mibdumpNoIndexFormats) →
      ((Pysmi.Cli.mibdumpRun codes mibdumpNoIndexFormats buildIndex fmt p).1 = 0 ↔
        (∀ e ∈ p, e.2 ≠ .missing ∧ e.2 ≠ .failed))) := by
  unfold Pysmi.Cli.mibdumpRun
  constructor
  · rintro ⟨hb, hf⟩
    have : mibdumpNoIndexFormats.contains fmt = true := List.contains_iff_mem.mpr hf
    simp only [hb, this, Bool.and_self, if_true]
    rfl
  · intro h
    have : (buildIndex && mibdumpNoIndexFormats.contains fmt) = false := by
      cases hb : buildIndex
      · rfl
      · cases hc : mibdumpNoIndexFormats.contains fmt
        · rfl
        · exact absurd ⟨hb, List.contains_iff_mem.mp hc⟩ h
    simp only [this, Bool.false_eq_true, if_false]
    exact C20_exit_generated p

end Pysmi.Generated.Cli
