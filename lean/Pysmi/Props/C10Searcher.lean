import Pysmi.Model.Searcher
/-!
# C10 (searchers) — "up to date" exactly when a transformed file for that exact module name
exists whose modification time is not older than the source's

For every directory content, extension list, source mtime and `rebuild` setting.
-/
namespace Pysmi.Searcher

theorem scanFiles_fresh (look : String → Ent) (mtime : Int) (exts : List String) :
    scanFiles look mtime exts = .notModified ↔ ∃ sfx ∈ exts, ∃ t h, look sfx = .file t h ∧ t ≥ mtime := by
  induction exts with
  | nil => simp [scanFiles]
  | cons sfx rest ih =>
    unfold scanFiles
    cases hl : look sfx with
    | file t h =>
      by_cases ht : t ≥ mtime
      · simp only [ht, if_true, true_iff]
        exact ⟨sfx, by simp, t, h, hl, ht⟩
      · simp only [ht, if_false, ih, List.mem_cons, exists_eq_or_imp]
        constructor
        · intro hh; exact Or.inr hh
        · rintro (⟨t', h', h1, h2⟩ | hh)
          · rw [hl] at h1; injection h1 with h1 _; subst h1; exact absurd h2 ht
          · exact hh
    | absent =>
      simp only [ih, List.mem_cons, exists_eq_or_imp, hl]
      constructor
      · intro hh; exact Or.inr hh
      · rintro (⟨t', h', h1, _⟩ | hh)
        · cases h1
        · exact hh
    | dir =>
      simp only [ih, List.mem_cons, exists_eq_or_imp, hl]
      constructor
      · intro hh; exact Or.inr hh
      · rintro (⟨t', h', h1, _⟩ | hh)
        · cases h1
        · exact hh

theorem scanFiles_ne_returns (look : String → Ent) (mtime : Int) (exts : List String) :
    scanFiles look mtime exts ≠ .returns := by
  induction exts with
  | nil => simp [scanFiles]
  | cons sfx rest ih =>
    unfold scanFiles
    split
    · split
      · simp
      · exact ih
    · exact ih

/-- **C10_anyfile_exact**: fresh ⇔ not rebuilding ∧ some configured extension names a *regular
file* at least as new as the source (equality counts; directories, other extensions never do). -/
theorem C10_anyfile_exact (exts : List String) (look : String → Ent) (mtime : Int) (rebuild : Bool) :
    anyFile exts look mtime rebuild = .notModified ↔
      rebuild = false ∧ ∃ sfx ∈ exts, ∃ t h, look sfx = .file t h ∧ t ≥ mtime := by
  unfold anyFile
  cases rebuild
  · simp [scanFiles_fresh]
  · simp

theorem scanPyc_fresh (look : String → Ent) (mtime : Int) (bc : List String) :
    scanPyc look mtime bc = true ↔ ∃ sfx ∈ bc, ∃ t p, look sfx = .file t (some p) ∧ p ≥ mtime := by
  induction bc with
  | nil => simp [scanPyc]
  | cons sfx rest ih =>
    unfold scanPyc
    cases hl : look sfx with
    | file t h =>
      cases h with
      | none =>
        simp only [ih, List.mem_cons, exists_eq_or_imp]
        constructor
        · intro hh; exact Or.inr hh
        · rintro (⟨t', p', h1, _⟩ | hh)
          · rw [hl] at h1; cases h1
          · exact hh
      | some p =>
        by_cases hp : p ≥ mtime
        · simp only [hp, if_true, true_iff]
          exact ⟨sfx, by simp, t, p, hl, hp⟩
        · simp only [hp, if_false, ih, List.mem_cons, exists_eq_or_imp]
          constructor
          · intro hh; exact Or.inr hh
          · rintro (⟨t', p', h1, h2⟩ | hh)
            · rw [hl] at h1; injection h1 with _ h12; injection h12 with h12; subst h12; exact absurd h2 hp
            · exact hh
    | absent =>
      simp only [ih, List.mem_cons, exists_eq_or_imp]
      constructor
      · intro hh; exact Or.inr hh
      · rintro (⟨t', p', h1, _⟩ | hh)
        · rw [hl] at h1; cases h1
        · exact hh
    | dir =>
      simp only [ih, List.mem_cons, exists_eq_or_imp]
      constructor
      · intro hh; exact Or.inr hh
      · rintro (⟨t', p', h1, _⟩ | hh)
        · rw [hl] at h1; cases h1
        · exact hh

/-- **C10_pyfile_exact**: the Python searcher answers "up to date" exactly when it is not rebuilding and either some
byte-code file carries a timestamp (behind the PEP 552 flags word; files with a foreign magic number, hash-based or
cut-off ones carry none) that is not older than the MIB, or some source-suffix file is a regular file not older than
the MIB - for every directory content, suffix lists and times.  An older file of either kind, a directory, a file
without a usable header never counts for or against. -/
theorem C10_pyfile_exact (bytecode source : List String) (look : String → Ent) (mtime : Int) (rebuild : Bool) :
    pyFile bytecode source look mtime rebuild = .notModified ↔
      rebuild = false ∧ ((∃ sfx ∈ bytecode, ∃ t p, look sfx = .file t (some p) ∧ p ≥ mtime) ∨
                         (∃ sfx ∈ source, ∃ t h, look sfx = .file t h ∧ t ≥ mtime)) := by
  unfold pyFile
  cases rebuild
  · simp only [Bool.false_eq_true, if_false, true_and]
    by_cases hb : scanPyc look mtime bytecode = true
    · simp only [hb, if_true, true_iff]
      exact Or.inl ((scanPyc_fresh look mtime bytecode).mp hb)
    · have hb' : scanPyc look mtime bytecode = false := by simpa using hb
      rw [hb']
      simp only [Bool.false_eq_true, if_false, scanFiles_fresh]
      constructor
      · intro h; exact Or.inr h
      · rintro (h | h)
        · exact absurd ((scanPyc_fresh look mtime bytecode).mpr h) hb
        · exact h
  · simp

/-- **C10_pyfile_exact_partial** (kept under its old name): with no byte-code file that carries a timestamp, the source
suffixes alone decide. -/
theorem C10_pyfile_exact_partial (bytecode source : List String) (look : String → Ent) (mtime : Int)
    (rebuild : Bool) (hpyc : ∀ sfx ∈ bytecode, ∀ t h, look sfx = .file t h → h = none) :
    pyFile bytecode source look mtime rebuild = .notModified ↔
      rebuild = false ∧ ∃ sfx ∈ source, ∃ t h, look sfx = .file t h ∧ t ≥ mtime := by
  rw [C10_pyfile_exact]
  constructor
  · rintro ⟨hr, h | h⟩
    · obtain ⟨sfx, hm, t, p, hl, _⟩ := h
      have := hpyc sfx hm t (some p) hl
      cases this
    · exact ⟨hr, h⟩
  · rintro ⟨hr, h⟩; exact ⟨hr, Or.inr h⟩

/-- **C10_rebuild**: with `rebuild` the file searchers never answer "up to date" … -/
theorem C10_rebuild_files (exts bc src : List String) (look : String → Ent) (mtime : Int) :
    anyFile exts look mtime true = .returns ∧ pyFile bc src look mtime true = .returns := ⟨rfl, rfl⟩

/-- … while an explicit stub list is not overridden by `rebuild`, nor by any mtime. -/
theorem C10_stub (names : List String) (name : String) (mtime : Int) (rebuild : Bool) :
    stub names name mtime rebuild = .notModified ↔ name ∈ names := by
  unfold stub; split <;> simp_all

/-- **C10_pyfile_pyc**: a byte-code file whose embedded timestamp is not older than the MIB answers "up to date",
wherever it stands among the byte-code suffixes and whatever else lies beside it. -/
theorem C10_pyfile_pyc (bytecode source : List String) (sfx : String) (look : String → Ent) (mtime t p : Int)
    (hm : sfx ∈ bytecode) (hl : look sfx = .file t (some p)) (hp : p ≥ mtime) :
    pyFile bytecode source look mtime false = .notModified :=
  (C10_pyfile_exact bytecode source look mtime false).mpr ⟨rfl, Or.inl ⟨sfx, hm, t, p, hl, hp⟩⟩

/-- **C10_stale_pyc_passed_over**: a byte-code file older than the MIB does not hide an up-to-date source file beside
it (before the repair of the loop it did: the searcher stopped at the first usable header). -/
theorem C10_stale_pyc_passed_over :
    pyFile [".pyc"] [".py"] (fun s => if s = ".pyc" then .file 100 (some 0) else if s = ".py" then .file 100 none else .absent)
      50 false = .notModified := by decide

example : pyFile [".pyc"] [".py"] (fun s => if s = ".py" then .file 50 none else .dir) 50 false = .notModified := by
  decide
example : pyFile [".pyc"] [".py"] (fun s => if s = ".pyc" then .file 100 (some 0) else .absent) 50 false = .notFound := by
  decide

end Pysmi.Searcher
