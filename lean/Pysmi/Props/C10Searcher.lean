import Pysmi.Model.Searcher
/-!
# C10 (searchers) — "up to date" exactly when a transformed file for that exact module name
exists whose modification time is not older than the source's

For every directory content, extension list, source mtime and `rebuild` setting.
-/
namespace Pysmi.Searcher

theorem scanFiles_fresh (look : String → Ent) (mtime : Int) (exts : List String) :
    scanFiles look mtime exts = .notModified ↔ ∃ sfx ∈ exts, ∃ t h, look sfx = .file t h ∧ t ≥ mtime := by
  induction exts with
  | nil => simp [scanFiles]
  | cons sfx rest ih =>
    unfold scanFiles
    cases hl : look sfx with
    | file t h =>
      by_cases ht : t ≥ mtime
      · simp only [ht, if_true, true_iff]
        exact ⟨sfx, by simp, t, h, hl, ht⟩
      · simp only [ht, if_false, ih, List.mem_cons, exists_eq_or_imp]
        constructor
        · intro hh; exact Or.inr hh
        · rintro (⟨t', h', h1, h2⟩ | hh)
          · rw [hl] at h1; injection h1 with h1 _; subst h1; exact absurd h2 ht
          · exact hh
    | absent =>
      simp only [ih, List.mem_cons, exists_eq_or_imp, hl]
      constructor
      · intro hh; exact Or.inr hh
      · rintro (⟨t', h', h1, _⟩ | hh)
        · cases h1
        · exact hh
    | dir =>
      simp only [ih, List.mem_cons, exists_eq_or_imp, hl]
      constructor
      · intro hh; exact Or.inr hh
      · rintro (⟨t', h', h1, _⟩ | hh)
        · cases h1
        · exact hh

theorem scanFiles_ne_returns (look : String → Ent) (mtime : Int) (exts : List String) :
    scanFiles look mtime exts ≠ .returns := by
  induction exts with
  | nil => simp [scanFiles]
  | cons sfx rest ih =>
    unfold scanFiles
    split
    · split
      · simp
      · exact ih
    · exact ih

/-- **C10_anyfile_exact**: fresh ⇔ not rebuilding ∧ some configured extension names a *regular
file* at least as new as the source (equality counts; directories, other extensions never do). -/
theorem C10_anyfile_exact (exts : List String) (look : String → Ent) (mtime : Int) (rebuild : Bool) :
    anyFile exts look mtime rebuild = .notModified ↔
      rebuild = false ∧ ∃ sfx ∈ exts, ∃ t h, look sfx = .file t h ∧ t ≥ mtime := by
  unfold anyFile
  cases rebuild
  · simp [scanFiles_fresh]
  · simp

/-- **C10_pyfile_exact_partial**: the same for the Python searcher's source suffixes, provided no
byte-code file with a usable header sits beside the module (that case is `C10_pyfile_pyc`). -/
theorem C10_pyfile_exact_partial (bytecode source : List String) (look : String → Ent) (mtime : Int)
    (rebuild : Bool) (hpyc : ∀ sfx ∈ bytecode, ∀ t h, look sfx = .file t h → h = none) :
    pyFile bytecode source look mtime rebuild = .notModified ↔
      rebuild = false ∧ ∃ sfx ∈ source, ∃ t h, look sfx = .file t h ∧ t ≥ mtime := by
  have hscan : scanPyc look mtime bytecode = none := by
    induction bytecode with
    | nil => rfl
    | cons sfx rest ih =>
      unfold scanPyc
      cases hl : look sfx with
      | file t h =>
        have := hpyc sfx (by simp) t h hl
        subst this
        exact ih (fun s hs => hpyc s (by simp [hs]))
      | absent => exact ih (fun s hs => hpyc s (by simp [hs]))
      | dir => exact ih (fun s hs => hpyc s (by simp [hs]))
  unfold pyFile
  cases rebuild
  · simp [hscan, scanFiles_fresh]
  · simp

/-- **C10_rebuild**: with `rebuild` the file searchers never answer "up to date" … -/
theorem C10_rebuild_files (exts bc src : List String) (look : String → Ent) (mtime : Int) :
    anyFile exts look mtime true = .returns ∧ pyFile bc src look mtime true = .returns := ⟨rfl, rfl⟩

/-- … while an explicit stub list is not overridden by `rebuild`, nor by any mtime. -/
theorem C10_stub (names : List String) (name : String) (mtime : Int) (rebuild : Bool) :
    stub names name mtime rebuild = .notModified ↔ name ∈ names := by
  unfold stub; split <;> simp_all

/-- **C10_pyfile_pyc**: the first byte-code file with a usable header decides by the timestamp written inside it
(`hdr`: behind the PEP 552 flags word; files with a foreign magic number, hash-based or cut-off ones have none and are
passed over): up to date exactly when that timestamp is not older than the source. -/
theorem C10_pyfile_pyc (source pre post : List String) (sfx : String) (look : String → Ent) (mtime t p : Int)
    (hpre : ∀ s ∈ pre, ∀ t h, look s = .file t h → h = none) (hl : look sfx = .file t (some p)) :
    pyFile (pre ++ sfx :: post) source look mtime false = (if p ≥ mtime then .notModified else .notFound) := by
  have hscan : scanPyc look mtime (pre ++ sfx :: post) = some (if p ≥ mtime then .notModified else .notFound) := by
    induction pre with
    | nil => simp [scanPyc, hl]
    | cons s rest ih =>
      simp only [List.cons_append]
      unfold scanPyc
      cases hs : look s with
      | file t' h =>
        have := hpre s (by simp) t' h hs
        subst this
        exact ih (fun x hx => hpre x (by simp [hx]))
      | absent => exact ih (fun x hx => hpre x (by simp [hx]))
      | dir => exact ih (fun x hx => hpre x (by simp [hx]))
  unfold pyFile
  simp [hscan]

/-- a stale byte-code file decides even when an up-to-date source module lies beside it (the searcher stops at the
first usable header); with the timestamp read from the right place this needs a byte-code file that really is older
than the MIB -/
theorem C10_stale_pyc_decides :
    pyFile [".pyc"] [".py"] (fun s => if s = ".pyc" then .file 100 (some 0) else if s = ".py" then .file 100 none else .absent)
      50 false = .notFound := by decide

example : pyFile [".pyc"] [".py"] (fun s => if s = ".py" then .file 50 none else .dir) 50 false = .notModified := by
  decide

end Pysmi.Searcher
