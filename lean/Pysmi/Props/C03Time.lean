import Pysmi.Model.Time
import Pysmi.Generated.Time
/-!
# C03 — revision data: `genTime`

The REVISION / LAST-UPDATED argument goes through `genTime` (Model/Time.lean: CPython's `strptime` regular expression
with its backtracking, the calendar check, glibc's `%Y`).  Proved for every date and time: a well-formed long stamp of
an existing date is rendered as that date; the short form is read as 19YY; any other text gives the dummy date or the
rendering of an existing date.  The field lemmas are decided by the kernel over the whole range of each field.
-/
namespace Pysmi.Time

def dc (n : Nat) : Char := Char.ofNat (48 + n)
def pad4 (y : Nat) : Str := [dc (y / 1000), dc (y / 100 % 10), dc (y / 10 % 10), dc (y % 10)]

/-- `YYYYMMDDHHMMZ` -/
def stampLong (y mo d h mi : Nat) : Str := pad4 y ++ (pad2 mo ++ (pad2 d ++ (pad2 h ++ (pad2 mi ++ ['Z']))))
/-- `YYMMDDHHMMZ` -/
def stampShort (yy mo d h mi : Nat) : Str := pad2 yy ++ (pad2 mo ++ (pad2 d ++ (pad2 h ++ (pad2 mi ++ ['Z']))))

/-- the date exists and the time is a time of day -/
def Valid (y mo d h mi : Nat) : Prop := 1 ≤ y ∧ y ≤ 9999 ∧ 1 ≤ mo ∧ mo ≤ 12 ∧ 1 ≤ d ∧ d ≤ daysIn y mo ∧ h < 24 ∧ mi < 60

theorem matchAlt_some_append (a : Alt) (m x r rest : Str) (h : matchAlt a m = some (x, r)) :
    matchAlt a (m ++ rest) = some (x, r ++ rest) := by
  induction a generalizing m x r with
  | nil => simp [matchAlt] at h ⊢; obtain ⟨h1, h2⟩ := h; subst h1; subst h2; exact ⟨rfl, rfl⟩
  | cons k ks ih =>
    cases m with
    | nil => simp [matchAlt] at h
    | cons c cs =>
      simp only [matchAlt, List.cons_append] at h ⊢
      split at h
      · rename_i hk
        simp only [hk, if_true]
        cases hm : matchAlt ks cs with
        | none => simp [hm] at h
        | some p =>
          obtain ⟨x', r'⟩ := p
          simp [hm] at h
          obtain ⟨h1, h2⟩ := h
          rw [ih cs x' r' hm]
          simp [h1, h2]
      · cases h

theorem matchAlt_none_append (a : Alt) (m rest : Str) (h : matchAlt a m = none) (hl : a.length ≤ m.length) :
    matchAlt a (m ++ rest) = none := by
  induction a generalizing m with
  | nil => simp [matchAlt] at h
  | cons k ks ih =>
    cases m with
    | nil => simp at hl
    | cons c cs =>
      simp only [matchAlt, List.cons_append] at h ⊢
      split
      · rename_i hk
        simp only [hk, if_true] at h
        cases hm : matchAlt ks cs with
        | none => rw [ih cs hm (by simpa using hl)]; rfl
        | some p => simp [hm] at h
      · rfl

/-- the first alternative that matches a prefix of `m` matches all of `m` -/
def firstFull : List Alt → Str → Bool
  | [], _ => false
  | a :: as, m =>
    match matchAlt a m with
    | some (x, r) => x == m && r == []
    | none => decide (a.length ≤ m.length) && firstFull as m

theorem findSome_firstFull {β} (alts : List Alt) (m rest : Str) (k : Str → Str → Option β) (v : β)
    (hf : firstFull alts m = true) (hk : k m rest = some v) :
    alts.findSome? (fun a => match matchAlt a (m ++ rest) with | none => none | some (x, r) => k x r) = some v := by
  induction alts with
  | nil => simp [firstFull] at hf
  | cons a as ih =>
    unfold firstFull at hf
    simp only [List.findSome?_cons]
    cases hm : matchAlt a m with
    | some p =>
      obtain ⟨x, r⟩ := p
      simp only [hm, Bool.and_eq_true, beq_iff_eq] at hf
      obtain ⟨h1, h2⟩ := hf
      subst h1; subst h2
      rw [matchAlt_some_append a x x [] rest hm]
      simp only [List.nil_append, hk]
    | none =>
      simp only [hm, Bool.and_eq_true, decide_eq_true_eq] at hf
      rw [matchAlt_none_append a m rest hm hf.1]
      simp only
      exact ih hf.2

theorem fields_step (alts : List Alt) (more : List (List Alt)) (m rest : Str) (ms : List Str) (r : Str)
    (hf : firstFull alts m = true) (hk : matchFields more rest = some (ms, r)) :
    matchFields (alts :: more) (m ++ rest) = some (m :: ms, r) := by
  unfold matchFields
  exact findSome_firstFull alts m rest (fun x rest' => (matchFields more rest').map fun (ms, r) => (x :: ms, r)) (m :: ms, r) hf
    (by simp [hk])

end Pysmi.Time

namespace Pysmi.Time

def yAlts : List Alt := [[d09, d09, d09, d09]]
def mAlts : List Alt := [[.lit '1', .range '0' '2'], [.lit '0', .range '1' '9'], [.range '1' '9']]
def dAlts : List Alt := [[.lit '3', .range '0' '1'], [.range '1' '2', d09], [.lit '0', .range '1' '9'], [.range '1' '9'], [.lit ' ', .range '1' '9']]
def hAlts : List Alt := [[.lit '2', .range '0' '3'], [.range '0' '1', d09], [d09]]
def miAlts : List Alt := [[.range '0' '5', d09], [d09]]

theorem fields_eq : fields = [yAlts, mAlts, dAlts, hAlts, miAlts, [[.zed]]] := rfl

theorem dc_facts : ∀ k, k < 10 → d09.ok (dc k) = true ∧ dc k ≠ ' ' ∧ (dc k).toNat - 48 = k := by decide +kernel
theorem full_y4 (a b c d : Nat) (ha : a < 10) (hb : b < 10) (hc : c < 10) (hd : d < 10) :
    firstFull yAlts [dc a, dc b, dc c, dc d] = true ∧ toNat [dc a, dc b, dc c, dc d] = 1000 * a + 100 * b + 10 * c + d := by
  obtain ⟨a1, a2, a3⟩ := dc_facts a ha
  obtain ⟨b1, b2, b3⟩ := dc_facts b hb
  obtain ⟨c1, c2, c3⟩ := dc_facts c hc
  obtain ⟨d1, d2, d3⟩ := dc_facts d hd
  constructor
  · simp [firstFull, yAlts, matchAlt, a1, b1, c1, d1]
  · simp [toNat, a2, b2, c2, d2, a3, b3, c3, d3]; omega
theorem full_y (y : Nat) (h : y < 10000) : firstFull yAlts (pad4 y) = true ∧ toNat (pad4 y) = y := by
  have := full_y4 (y / 1000) (y / 100 % 10) (y / 10 % 10) (y % 10) (by omega) (by omega) (by omega) (by omega)
  unfold pad4
  refine ⟨this.1, ?_⟩
  rw [this.2]; omega
theorem full_m : ∀ n, n < 13 → 1 ≤ n → firstFull mAlts (pad2 n) = true ∧ toNat (pad2 n) = n := by decide +kernel
theorem full_d : ∀ n, n < 32 → 1 ≤ n → firstFull dAlts (pad2 n) = true ∧ toNat (pad2 n) = n := by decide +kernel
theorem full_h : ∀ n, n < 24 → firstFull hAlts (pad2 n) = true ∧ toNat (pad2 n) = n := by decide +kernel
theorem full_mi : ∀ n, n < 60 → firstFull miAlts (pad2 n) = true ∧ toNat (pad2 n) = n := by decide +kernel
theorem len_pad2 : ∀ n, n < 100 → (pad2 n).length = 2 := by decide +kernel
theorem short_is_long : ∀ yy, yy < 100 → '1' :: '9' :: pad2 yy = pad4 (1900 + yy) := by decide +kernel

theorem daysIn_le (y m : Nat) : daysIn y m ≤ 31 := by
  unfold daysIn; split
  · split <;> omega
  · split <;> omega

theorem strptime_long (y mo d h mi : Nat) (hv : Valid y mo d h mi) :
    strptime (stampLong y mo d h mi) = some ⟨y, mo, d, h, mi⟩ := by
  obtain ⟨hy1, hy2, hm1, hm2, hd1, hd2, hh, hmi⟩ := hv
  have hd3 : d < 32 := by have := daysIn_le y mo; omega
  have e6 : matchFields [[[Cls.zed]]] ['Z'] = some ([['Z']], []) := by decide
  have e5 := fields_step miAlts [[[Cls.zed]]] (pad2 mi) ['Z'] _ _ (full_mi mi hmi).1 e6
  have e4 := fields_step hAlts _ (pad2 h) _ _ _ (full_h h hh).1 e5
  have e3 := fields_step dAlts _ (pad2 d) _ _ _ (full_d d hd3 hd1).1 e4
  have e2 := fields_step mAlts _ (pad2 mo) _ _ _ (full_m mo (by omega) hm1).1 e3
  have e1 := fields_step yAlts _ (pad4 y) _ _ _ (full_y y (by omega)).1 e2
  unfold strptime stampLong
  rw [fields_eq, e1]
  simp only [(full_y y (by omega)).2, (full_m mo (by omega) hm1).2, (full_d d hd3 hd1).2, (full_h h hh).2, (full_mi mi hmi).2]
  have : (decide (1 ≤ y) && decide (d ≤ daysIn y mo)) = true := by simp [hy1, hd2]
  simp [this]

/-- **C03_revision_long**: a well-formed `YYYYMMDDHHMMZ` stamp of an existing date comes out as that date and time -/
theorem C03_revision_long (y mo d h mi : Nat) (hv : Valid y mo d h mi) :
    genTime (stampLong y mo d h mi) = strftime ⟨y, mo, d, h, mi⟩ := by
  have hl : (stampLong y mo d h mi).length = 13 := by
    obtain ⟨hy1, hy2, hm1, hm2, hd1, hd2, hh, hmi⟩ := hv
    have hd3 : d < 32 := by have := daysIn_le y mo; omega
    simp [stampLong, pad4, len_pad2 mo (by omega), len_pad2 d (by omega), len_pad2 h (by omega), len_pad2 mi (by omega)]
  unfold genTime
  simp only [hl, show (13 : Nat) ≠ 11 by decide, if_false]
  rw [strptime_long y mo d h mi hv]

/-- **C03_revision_short**: the short form `YYMMDDHHMMZ` denotes the year 19YY (RFC 2578) -/
theorem C03_revision_short (yy mo d h mi : Nat) (hyy : yy < 100) (hv : Valid (1900 + yy) mo d h mi) :
    genTime (stampShort yy mo d h mi) = strftime ⟨1900 + yy, mo, d, h, mi⟩ := by
  have hl : (stampShort yy mo d h mi).length = 11 := by
    obtain ⟨hy1, hy2, hm1, hm2, hd1, hd2, hh, hmi⟩ := hv
    have hd3 : d < 32 := by have := daysIn_le (1900 + yy) mo; omega
    simp [stampShort, len_pad2 yy hyy, len_pad2 mo (by omega), len_pad2 d (by omega), len_pad2 h (by omega), len_pad2 mi (by omega)]
  unfold genTime
  simp only [hl, if_true]
  have : '1' :: '9' :: stampShort yy mo d h mi = stampLong (1900 + yy) mo d h mi := by
    unfold stampShort stampLong
    rw [← short_is_long yy hyy]; rfl
  rw [this, strptime_long _ mo d h mi hv]

/-- whatever the text, the result is the dummy date or the rendering of an existing date the text was read as -/
theorem C03_revision_total (s : Str) :
    genTime s = dummy ∨ ∃ t : TM, 1 ≤ t.y ∧ t.d ≤ daysIn t.y t.mo ∧ genTime s = strftime t := by
  unfold genTime
  simp only
  cases h : strptime (if s.length = 11 then '1' :: '9' :: s else s) with
  | none => exact Or.inl rfl
  | some t =>
    right
    refine ⟨t, ?_, ?_, rfl⟩ <;>
    · unfold strptime at h
      split at h
      · simp only at h
        split at h
        · rename_i hc
          injection h with h
          simp only [Bool.and_eq_true, decide_eq_true_eq] at hc
          rw [← h]; first | exact hc.1 | exact hc.2
        · cases h
      · cases h

example : Valid 2004 2 29 23 59 := by unfold Valid; decide
example : String.ofList (genTime (stampLong 2004 2 29 23 59)) = "2004-02-29 23:59" := by decide +kernel
example : String.ofList (genTime (stampShort 3 3 15 0 0)) = "1903-03-15 00:00" := by decide +kernel
example : String.ofList (genTime "190002290000Z".toList) = "1970-01-01 00:00" := by decide +kernel

/-- the literals of `genTime` as the source has them now (regenerated on every run): the short length, the century
prefix, the parse and print formats and the dummy stamp are the ones the model is written for -/
theorem pin_genTime_source :
    Pysmi.Generated.Time.strings = ["19", "%Y-%m-%d %H:%M", "%Y%m%d%H%MZ", "197001010000Z", "%Y-%m-%d %H:%M", "%Y%m%d%H%MZ"] ∧
    Pysmi.Generated.Time.ints = [11] ∧
    Pysmi.Generated.Time.calls = ["len", "append", "strftime", "strptime", "append", "strftime", "strptime"] := by decide

/-- the dummy stamp of the source goes through the same two calls and gives the model's dummy date -/
theorem pin_dummy : genTime "197001010000Z".toList = dummy := by decide +kernel

end Pysmi.Time
