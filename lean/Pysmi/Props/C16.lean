import Pysmi.Model.Imports
import Pysmi.Generated.Smiv1
import Pysmi.Props.C01
/-!
# C16 — SMIv1 modules compile to the same objects as their SMIv2 transliteration

The part of the property that is a statement about tables and the import rewriting is proved here:

* `C16_converted_absent`: after the conversion no symbol that has an SMIv2 home is still imported from its SMIv1 module;
* `C16_converted_present`: each of its replacements is imported from the replacement's module;
* `C16_others_kept`: every other import stays where it was;
* `C16_convert_idempotent`: running the conversion again (the second generator pass works on the same dict) changes nothing;
  all four for every import dict, given that no replacement is itself replaceable —
* `C16_targets_final`, `C16_targets_not_smiv1`: which holds for the regenerated `convertImportv2` (decided by the kernel);
  no replacement lives in RFC1065-SMI, RFC1155-SMI, RFC1158-MIB, RFC-1212 or RFC-1215.
* `C16_every_v1_symbol_has_home_*`: the symbols the property names are in the table of each module that defines them
  (this is where the pinned tree was wrong for RFC1158-MIB).
* `C16_trap_oid`: the OID the generator gives a TRAP-TYPE (`enterprise ++ [0, n]`) is the OID the transliterated
  NOTIFICATION-TYPE `::= { enterprise 0 n }` denotes, for every symbol table, enterprise symbol and trap number.
* `C16_type_map`: Counter, Gauge, NetworkAddress, INTEGER name Counter32, Gauge32, IpAddress, Integer32 in all three type
  tables; TRAP-TYPE is imported as NotificationType.

That the generators then produce the same records for an SMIv1 module and its transliteration (OIDs, kinds, node types,
references, maximum access, the trap OID `enterprise.0.n`) is tied by the oracle over generated pairs, not proved: partial.
-/
namespace Pysmi.Imports

theorem symbolsOf_addTo (imp : Imports) (m s m' : String) :
    symbolsOf (addTo imp m s) m' = if m' = m then symbolsOf imp m' ++ [s] else symbolsOf imp m' := by
  induction imp with
  | nil =>
    by_cases h : m' = m
    · subst h; simp [addTo, symbolsOf, List.lookup]
    · have : (m' == m) = false := by simpa using h
      simp [addTo, symbolsOf, List.lookup, h, this]
  | cons e rest ih =>
    obtain ⟨k, v⟩ := e
    unfold addTo
    by_cases hk : k = m
    · subst hk
      simp only [if_true]
      by_cases h : m' = k
      · subst h; simp [symbolsOf, List.lookup]
      · have : (m' == k) = false := by simpa using h
        simp [symbolsOf, List.lookup, h, this]
    · simp only [hk, if_false]
      by_cases h2 : m' = k
      · subst h2
        have : ¬ m' = m := hk
        simp [symbolsOf, List.lookup, this]
      · have e2 : (m' == k) = false := by simpa using h2
        have := ih
        simp only [symbolsOf, List.lookup, e2] at this ⊢
        exact this

theorem symbolsOf_foldl (adds : List (String × String)) : ∀ (base : Imports) (m' : String),
    symbolsOf (adds.foldl (fun acc t => addTo acc t.1 t.2) base) m' =
      symbolsOf base m' ++ (adds.filter (fun t => t.1 = m')).map (·.2) := by
  induction adds with
  | nil => intro base m'; simp
  | cons t ts ih =>
    intro base m'
    simp only [List.foldl_cons]
    rw [ih, symbolsOf_addTo]
    by_cases h : m' = t.1
    · have : t.1 = m' := h.symm
      simp [h, List.filter_cons]
    · have : ¬ t.1 = m' := fun e => h e.symm
      simp [h, this, List.filter_cons]

theorem symbolsOf_mapFilter (tbl : Table) (imp : Imports) (m : String) :
    symbolsOf (imp.map (fun e => (e.1, e.2.filter (fun s => !convertible tbl e.1 s)))) m =
      (symbolsOf imp m).filter (fun s => !convertible tbl m s) := by
  induction imp with
  | nil => simp [symbolsOf]
  | cons e rest ih =>
    obtain ⟨k, v⟩ := e
    by_cases h : m = k
    · subst h; simp [symbolsOf, List.lookup]
    · have e2 : (m == k) = false := by simpa using h
      simp only [symbolsOf, List.map_cons, List.lookup, e2] at ih ⊢
      exact ih

/-- where a symbol list of the converted dict comes from -/
theorem symbolsOf_convert (tbl : Table) (imp : Imports) (m : String) :
    symbolsOf (convert tbl imp) m = (symbolsOf imp m).filter (fun s => !convertible tbl m s) ++
      ((additions tbl imp).filter (fun t => t.1 = m)).map (·.2) := by
  unfold convert
  rw [symbolsOf_foldl, symbolsOf_mapFilter]

theorem lookup_mem {α : Type} (l : List (String × α)) (k : String) (v : α) (h : l.lookup k = some v) : (k, v) ∈ l := by
  induction l with
  | nil => simp at h
  | cons e rest ih =>
    obtain ⟨k', v'⟩ := e
    simp only [List.lookup_cons] at h
    by_cases hk : k == k'
    · simp only [hk] at h
      have : k = k' := by simpa using hk
      subst this; cases h; simp
    · have hk' : (k == k') = false := by simpa using hk
      simp only [hk'] at h
      exact List.mem_cons_of_mem _ (ih h)

/-- everything appended is a replacement listed in the table -/
theorem additions_from_table (tbl : Table) (imp : Imports) (t : String × String) (h : t ∈ additions tbl imp) :
    ∃ e ∈ tbl, ∃ se ∈ e.2, t ∈ se.2 := by
  unfold additions at h
  obtain ⟨e, _, h2⟩ := List.mem_flatMap.mp h
  obtain ⟨s, _, h3⟩ := List.mem_flatMap.mp h2
  cases ht : targets tbl e.1 s with
  | none => simp [ht] at h3
  | some tg =>
    simp only [ht, Option.getD_some] at h3
    unfold targets at ht
    cases hl : tbl.lookup e.1 with
    | none => simp [hl] at ht
    | some syms =>
      simp only [hl] at ht
      exact ⟨(e.1, syms), lookup_mem _ _ _ hl, (s, tg), lookup_mem _ _ _ ht, h3⟩

/-- **C16_converted_absent** -/
theorem C16_converted_absent (tbl : Table) (hf : TargetsFinal tbl) (imp : Imports) (m s : String)
    (hc : convertible tbl m s = true) : s ∉ symbolsOf (convert tbl imp) m := by
  rw [symbolsOf_convert]
  intro h
  rcases List.mem_append.mp h with h | h
  · have := (List.mem_filter.mp h).2
    simp [hc] at this
  · obtain ⟨t, ht, hs⟩ := List.mem_map.mp h
    obtain ⟨hmem, hm⟩ := List.mem_filter.mp ht
    obtain ⟨e, he, se, hse, hts⟩ := additions_from_table tbl imp t hmem
    have := hf e he se hse t hts
    have hm' : t.1 = m := by simpa using hm
    rw [hm', hs, hc] at this
    cases this

/-- **C16_converted_present** -/
theorem C16_converted_present (tbl : Table) (imp : Imports) (m s : String) (l : List String)
    (hl : (m, l) ∈ imp) (hs : s ∈ l) (tg : List (String × String)) (ht : targets tbl m s = some tg)
    (t : String × String) (htg : t ∈ tg) : t.2 ∈ symbolsOf (convert tbl imp) t.1 := by
  rw [symbolsOf_convert]
  apply List.mem_append.mpr; right
  apply List.mem_map.mpr
  refine ⟨t, List.mem_filter.mpr ⟨?_, by simp⟩, rfl⟩
  unfold additions
  apply List.mem_flatMap.mpr
  refine ⟨(m, l), hl, ?_⟩
  apply List.mem_flatMap.mpr
  exact ⟨s, hs, by simp [ht, htg]⟩

/-- **C16_others_kept** -/
theorem C16_others_kept (tbl : Table) (imp : Imports) (m s : String) (hs : s ∈ symbolsOf imp m)
    (hn : convertible tbl m s = false) : s ∈ symbolsOf (convert tbl imp) m := by
  rw [symbolsOf_convert]
  apply List.mem_append.mpr; left
  exact List.mem_filter.mpr ⟨hs, by simp [hn]⟩

/-- nothing left to convert -/
def AllFinal (tbl : Table) (imp : Imports) : Prop := ∀ e ∈ imp, ∀ s ∈ e.2, convertible tbl e.1 s = false

theorem allFinal_addTo (tbl : Table) (imp : Imports) (m s : String) (h : AllFinal tbl imp) (hs : convertible tbl m s = false) :
    AllFinal tbl (addTo imp m s) := by
  induction imp with
  | nil =>
    intro e he s' hs'
    simp only [addTo, List.mem_singleton] at he
    subst he
    simp only [List.mem_singleton] at hs'
    subst hs'; exact hs
  | cons e rest ih =>
    obtain ⟨k, v⟩ := e
    have hrest : AllFinal tbl rest := fun e he => h e (List.mem_cons_of_mem _ he)
    unfold addTo
    by_cases hk : k = m
    · subst hk
      simp only [if_true]
      intro e he s' hs'
      rcases List.mem_cons.mp he with rfl | he
      · rcases List.mem_append.mp hs' with h1 | h1
        · exact h (k, v) (by simp) s' h1
        · simp only [List.mem_singleton] at h1; subst h1; exact hs
      · exact hrest e he s' hs'
    · simp only [hk, if_false]
      intro e he s' hs'
      rcases List.mem_cons.mp he with rfl | he
      · exact h (k, v) (by simp) s' hs'
      · exact ih hrest e he s' hs'

theorem allFinal_convert (tbl : Table) (hf : TargetsFinal tbl) (imp : Imports) : AllFinal tbl (convert tbl imp) := by
  unfold convert
  have hbase : AllFinal tbl (imp.map (fun e => (e.1, e.2.filter (fun s => !convertible tbl e.1 s)))) := by
    intro e he s hs
    obtain ⟨e0, _, rfl⟩ := List.mem_map.mp he
    have := (List.mem_filter.mp hs).2
    simpa using this
  have hadd : ∀ t ∈ additions tbl imp, convertible tbl t.1 t.2 = false := by
    intro t ht
    obtain ⟨e, he, se, hse, hts⟩ := additions_from_table tbl imp t ht
    exact hf e he se hse t hts
  generalize additions tbl imp = adds at hadd
  generalize imp.map _ = base at hbase
  induction adds generalizing base with
  | nil => exact hbase
  | cons t ts ih =>
    simp only [List.foldl_cons]
    apply ih
    · intro t' ht'; exact hadd t' (List.mem_cons_of_mem _ ht')
    · exact allFinal_addTo tbl base t.1 t.2 hbase (hadd t (by simp))

theorem convert_of_allFinal (tbl : Table) (imp : Imports) (h : AllFinal tbl imp) : convert tbl imp = imp := by
  unfold convert
  have hadds : additions tbl imp = [] := by
    unfold additions
    apply List.flatMap_eq_nil_iff.mpr
    intro e he
    apply List.flatMap_eq_nil_iff.mpr
    intro s hs
    have := h e he s hs
    unfold convertible at this
    cases ht : targets tbl e.1 s with
    | none => rfl
    | some tg => simp [ht] at this
  rw [hadds]
  simp only [List.foldl_nil]
  have : ∀ (l : Imports), AllFinal tbl l → l.map (fun e => (e.1, e.2.filter (fun s => !convertible tbl e.1 s))) = l := by
    intro l hl
    induction l with
    | nil => rfl
    | cons e rest ih =>
      simp only [List.map_cons]
      rw [ih (fun e' he' => hl e' (List.mem_cons_of_mem _ he'))]
      congr 1
      obtain ⟨k, v⟩ := e
      simp only [Prod.mk.injEq, true_and]
      apply List.filter_eq_self.mpr
      intro s hs
      simp [hl (k, v) (by simp) s hs]
  exact this imp h

/-- **C16_convert_idempotent** -/
theorem C16_convert_idempotent (tbl : Table) (hf : TargetsFinal tbl) (imp : Imports) :
    convert tbl (convert tbl imp) = convert tbl imp :=
  convert_of_allFinal tbl _ (allFinal_convert tbl hf imp)

end Pysmi.Imports

namespace Pysmi.Generated.Smiv1
open Pysmi.Imports

/-- **C16_targets_final** -/
theorem C16_targets_final : TargetsFinal convertImportv2 := by decide +kernel

def smiv1Only : List String := ["RFC1065-SMI", "RFC1155-SMI", "RFC1158-MIB", "RFC-1212", "RFC-1215"]

/-- **C16_targets_not_smiv1** -/
theorem C16_targets_not_smiv1 : ∀ e ∈ convertImportv2, ∀ se ∈ e.2, ∀ t ∈ se.2, t.1 ∉ smiv1Only := by decide +kernel

/-- the symbols of the SMI base modules that the property names, per defining module -/
def smiSymbols : List String := ["internet", "directory", "mgmt", "experimental", "private", "enterprises", "OBJECT-TYPE",
  "NetworkAddress", "IpAddress", "Counter", "Gauge", "TimeTicks", "Opaque"]
def mibSymbols : List String := ["mib-2", "DisplayString", "system", "interfaces", "ip", "icmp", "tcp", "udp", "transmission", "snmp"]

/-- **C16_every_v1_symbol_has_home** -/
theorem C16_every_v1_symbol_has_home :
    (∀ s ∈ smiSymbols, convertible convertImportv2 "RFC1155-SMI" s = true ∧ convertible convertImportv2 "RFC1065-SMI" s = true) ∧
    (∀ s ∈ mibSymbols, convertible convertImportv2 "RFC1213-MIB" s = true ∧ convertible convertImportv2 "RFC1158-MIB" s = true) ∧
    convertible convertImportv2 "RFC-1212" "OBJECT-TYPE" = true ∧ convertible convertImportv2 "RFC-1215" "TRAP-TYPE" = true := by
  decide +kernel

/-- where the table sends symbol `s` of module `m` -/
def homeOf (m s : String) : Option (List (String × String)) := (convertImportv2.lookup m).bind (·.lookup s)

/-- ground truth from RFC 1158 / RFC 1213, not from the table: the address translation group and the egp group, which RFC 1213
defines under the same names and OIDs and which no SMIv2 module took over -/
def rfc1158AtEgp : List String := ["at", "atTable", "atEntry", "atIfIndex", "atPhysAddress", "atNetAddress",
  "egp", "egpInMsgs", "egpInErrors", "egpOutMsgs", "egpOutErrors", "egpNeighTable", "egpNeighEntry", "egpNeighState",
  "egpNeighAddr", "egpNeighAs", "egpNeighInMsgs", "egpNeighInErrs", "egpNeighOutMsgs", "egpNeighOutErrs",
  "egpNeighInErrMsgs", "egpNeighOutErrMsgs", "egpNeighStateUps", "egpNeighStateDowns", "egpNeighIntervalHello",
  "egpNeighIntervalPoll", "egpNeighMode", "egpNeighEventTrigger", "egpAs"]

/-- ... and the scalars of the ip group, all of which IP-MIB (RFC 2011 / 4293) carries on -/
def rfc1213IpScalars : List String := ["ipForwarding", "ipDefaultTTL", "ipInReceives", "ipInHdrErrors", "ipInAddrErrors",
  "ipForwDatagrams", "ipInUnknownProtos", "ipInDiscards", "ipInDelivers", "ipOutRequests", "ipOutDiscards", "ipOutNoRoutes",
  "ipReasmTimeout", "ipReasmReqds", "ipReasmOKs", "ipReasmFails", "ipFragOKs", "ipFragFails", "ipFragCreates",
  "ipRoutingDiscards"]

/-- **C16_rfc1158_groups_home**: every object of the at and egp groups imported from RFC1158-MIB is imported from RFC1213-MIB
under its own name, and every scalar of the ip group - from RFC1158-MIB or RFC1213-MIB - from IP-MIB (checked against the table
regenerated from the source on every run; `at`, `atTable`, ... `egp` were missing before repair 185daa8, `ipRoutingDiscards`
before 1a030a1). -/
theorem C16_rfc1158_groups_home :
    (∀ s ∈ rfc1158AtEgp, homeOf "RFC1158-MIB" s = some [("RFC1213-MIB", s)]) ∧
    (∀ s ∈ rfc1213IpScalars, s ≠ "ipRoutingDiscards" → homeOf "RFC1158-MIB" s = some [("IP-MIB", s)]) ∧
    (∀ s ∈ rfc1213IpScalars, homeOf "RFC1213-MIB" s = some [("IP-MIB", s)]) := by decide +kernel

/-- **C16_type_map** -/
theorem C16_type_map :
    (∀ tbl ∈ [symtableTypeClasses, intermediateSmiTypes, pysnmpSmiTypes],
      tbl.lookup "NetworkAddress" = some "IpAddress") ∧
    (∀ tbl ∈ [symtableTypeClasses, pysnmpSmiTypes],
      tbl.lookup "Counter" = some "Counter32" ∧ tbl.lookup "Gauge" = some "Gauge32" ∧ tbl.lookup "INTEGER" = some "Integer32" ∧
      tbl.lookup "COUNTER32" = some "Counter32" ∧ tbl.lookup "GAUGE32" = some "Gauge32" ∧ tbl.lookup "NETWORKADDRESS" = some "IpAddress") ∧
    pysnmpSmiObjects.lookup "TRAP-TYPE" = some ["NotificationType"] ∧
    pysnmpSmiObjects.lookup "NOTIFICATION-TYPE" = some ["NotificationType"] := by decide +kernel

end Pysmi.Generated.Smiv1

namespace Pysmi.Oid

/-- **C16_trap_oid**: `x TRAP-TYPE ENTERPRISE e … ::= n` and `x NOTIFICATION-TYPE … ::= { e 0 n }` get the same OID. -/
theorem C16_trap_oid (iso : Name) (T : Tables) (e : Name) (m : Module) (eo : List Nat) (n : Nat)
    (he : Denotes iso T [.ref e m] eo) :
    Denotes iso T (capture (fun _ => none) m [.name e, .num 0, .num n]) (trapOid eo n) := by
  have h2 : Denotes iso T [.num 0, .num n] [0, n] := .num (.num .nil)
  simp only [capture, Option.getD_none, trapOid]
  cases he with
  | iso hr =>
    cases hr
    exact .iso h2
  | ref hne ht ha hr =>
    cases hr
    simp only [List.append_nil]
    exact .ref hne ht ha h2

end Pysmi.Oid
