import Pysmi.Props.C11
/-!
# C02 — the syntax tree is a faithful, layout-independent image of the MIB text

Parser half: `C02_lr_sound` (in `Props/C02LR.lean`).  Lexer half, here:

* `scan` is the token list of a text as a plain recursive function (`lexLoop_eq_scan` ties it to the
  accumulator loop the driver runs);
* `C02_blank_skipped`, `C02_comment_skipped`: blanks and comments produce no token;
* `C02_separator_irrelevant`: any two separators (non-empty runs of spaces, tabs, LF, CRLF, CR and
  `--` comments) in front of the same remaining text give the same tokens up to line numbers — for
  separators of any length;
* `C02_exports_opaque`, `C02_choice_opaque`: the token stream does not depend on the body of an
  EXPORTS … ; or CHOICE … } block, whatever characters (other than the terminator) it contains;
* `C02_number_value`: a decimal number token carries the integer its digits denote, for every length;
* `C02_list_append_in_order`: the list-building actions append items in source order.
-/
namespace Pysmi.Lexer

/-- token list of `s` from lexer state `st` at line `line` -/
def scan (cfg : Cfg) : Nat → LexState → Nat → Str → Except LexErr (List Tok)
  | 0, _, _, _ => .error .outOfFuel
  | _ + 1, _, _, [] => .ok []
  | fuel + 1, st, line, c :: cs =>
    match step cfg st line (c :: cs) with
    | .err k => .error (.err k line)
    | .tok t n next lines => (scan cfg fuel next (line + lines) ((c :: cs).drop (max n 1))).map (t :: ·)
    | .skip n next lines => scan cfg fuel next (line + lines) ((c :: cs).drop (max n 1))

theorem scan_cons (cfg : Cfg) (fuel : Nat) (st : LexState) (line : Nat) (c : Char) (cs : Str) :
    scan cfg (fuel + 1) st line (c :: cs) =
      match step cfg st line (c :: cs) with
      | .err k => .error (.err k line)
      | .tok t n next lines => (scan cfg fuel next (line + lines) ((c :: cs).drop (max n 1))).map (t :: ·)
      | .skip n next lines => scan cfg fuel next (line + lines) ((c :: cs).drop (max n 1)) := rfl

theorem scan_skip (cfg : Cfg) (fuel : Nat) (st : LexState) (line : Nat) (c : Char) (cs : Str) (n : Nat) (next : LexState)
    (lines : Nat) (h : step cfg st line (c :: cs) = .skip n next lines) :
    scan cfg (fuel + 1) st line (c :: cs) = scan cfg fuel next (line + lines) ((c :: cs).drop (max n 1)) := by
  rw [scan_cons, h]

theorem lexLoop_cons (cfg : Cfg) (fuel : Nat) (st : LexState) (line : Nat) (c : Char) (cs : Str) (acc : List Tok) :
    lexLoop cfg (fuel + 1) st line (c :: cs) acc =
      match step cfg st line (c :: cs) with
      | .err k => .error (.err k line)
      | .tok t n next lines => lexLoop cfg fuel next (line + lines) ((c :: cs).drop (max n 1)) (t :: acc)
      | .skip n next lines => lexLoop cfg fuel next (line + lines) ((c :: cs).drop (max n 1)) acc := rfl

theorem lexLoop_eq_scan (cfg : Cfg) : ∀ (fuel : Nat) (st : LexState) (line : Nat) (s : Str) (acc : List Tok),
    (lexLoop cfg fuel st line s acc).map (·.1) = (scan cfg fuel st line s).map (acc.reverse ++ ·) := by
  intro fuel
  induction fuel with
  | zero => intro st line s acc; rfl
  | succ fuel ih =>
    intro st line s acc
    cases s with
    | nil => simp [lexLoop, scan, Except.map]
    | cons c cs =>
      rw [lexLoop_cons, scan_cons]
      cases step cfg st line (c :: cs) with
      | err k => rfl
      | tok t n next lines =>
        simp only
        rw [ih]
        cases scan cfg fuel next (line + lines) ((c :: cs).drop (max n 1)) <;> simp [Except.map]
      | skip n next lines => exact ih _ _ _ _

/-- `lexAll` is `scan` from a fresh lexer -/
theorem lexAll_eq_scan (cfg : Cfg) (s : Str) : lexAll cfg s = scan cfg (s.length + 1) .initial 1 s := by
  unfold lexAll
  have := lexLoop_eq_scan cfg (s.length + 1) .initial 1 s []
  simp only [List.reverse_nil, List.nil_append] at this
  rw [this]
  cases scan cfg (s.length + 1) .initial 1 s <;> simp [Except.map]

/-! ### blanks and comments -/

theorem step_space (cfg : Cfg) (line : Nat) (rest : Str) : step cfg .initial line (' ' :: rest) = .skip 1 .initial 0 := by
  simp [step]
theorem step_tab (cfg : Cfg) (line : Nat) (rest : Str) : step cfg .initial line ('\t' :: rest) = .skip 1 .initial 0 := by
  simp [step]
theorem step_lf (cfg : Cfg) (line : Nat) (rest : Str) : step cfg .initial line ('\n' :: rest) = .skip 1 .initial 1 := by
  simp [step, newlineLen]
theorem step_crlf (cfg : Cfg) (line : Nat) (rest : Str) : step cfg .initial line ('\r' :: '\n' :: rest) = .skip 2 .initial 1 := by
  simp [step, newlineLen]

/-- **C02_blank_skipped**: a blank in front of a text produces no token; only a line end moves the line counter. -/
theorem C02_blank_skipped (cfg : Cfg) (fuel line : Nat) (rest : Str) :
    scan cfg (fuel + 1) .initial line (' ' :: rest) = scan cfg fuel .initial line rest ∧
    scan cfg (fuel + 1) .initial line ('\t' :: rest) = scan cfg fuel .initial line rest ∧
    scan cfg (fuel + 1) .initial line ('\n' :: rest) = scan cfg fuel .initial (line + 1) rest ∧
    scan cfg (fuel + 1) .initial line ('\r' :: '\n' :: rest) = scan cfg fuel .initial (line + 1) rest := by
  refine ⟨?_, ?_, ?_, ?_⟩
  · rw [scan_skip cfg fuel _ _ _ _ _ _ _ (step_space cfg line rest)]; simp
  · rw [scan_skip cfg fuel _ _ _ _ _ _ _ (step_tab cfg line rest)]; simp
  · rw [scan_skip cfg fuel _ _ _ _ _ _ _ (step_lf cfg line rest)]; simp
  · rw [scan_skip cfg fuel _ _ _ _ _ _ _ (step_crlf cfg line rest)]; simp

theorem step_comment_start (cfg : Cfg) (line : Nat) (rest : Str) :
    step cfg .initial line ('-' :: '-' :: rest) = .skip 2 .comment 0 := by
  simp [step, newlineLen, startsWith]

def noEol (body : Str) : Prop := ∀ c ∈ body, c ≠ '\r' ∧ c ≠ '\n'

theorem spanLen_append_stop (p : Char → Bool) (body : Str) (c : Char) (rest : Str) (hb : ∀ x ∈ body, p x = true)
    (hc : p c = false) : spanLen p (body ++ c :: rest) = body.length := by
  induction body with
  | nil => simp [spanLen, hc]
  | cons b bs ih =>
    simp only [List.cons_append, spanLen, hb b (by simp), if_true, List.length_cons]
    rw [ih (fun x hx => hb x (by simp [hx]))]; omega

theorem newlineLen_none_of_head (c : Char) (rest : Str) (h1 : c ≠ '\r') (h2 : c ≠ '\n') : newlineLen (c :: rest) = none := by
  simp [newlineLen, h1, h2]

/-- inside a comment, a body without line ends followed by LF is skipped and ends the comment -/
theorem scan_comment_body (cfg : Cfg) (body rest : Str) (hb : noEol body) :
    ∃ k, ∀ fuel line, scan cfg (fuel + k) .comment line (body ++ '\n' :: rest) = scan cfg fuel .initial (line + 1) rest := by
  have hnl : ∀ line, step cfg .comment line ('\n' :: rest) = .skip 1 .initial 1 := by
    intro line; simp [step, newlineLen]
  cases body with
  | nil =>
    refine ⟨1, fun fuel line => ?_⟩
    simp only [List.nil_append]
    rw [scan_skip cfg fuel _ _ _ _ _ _ _ (hnl line)]; simp
  | cons b bs =>
    have hb1 := hb b (by simp)
    have hspan : spanLen (fun c => c != '\r' && c != '\n') (b :: (bs ++ '\n' :: rest)) = bs.length + 1 := by
      have := spanLen_append_stop (fun c => c != '\r' && c != '\n') (b :: bs) '\n' rest
        (fun x hx => by have := hb x hx; simp [this.1, this.2]) (by simp)
      simpa using this
    have hstep : ∀ line, step cfg .comment line (b :: (bs ++ '\n' :: rest)) = .skip (bs.length + 1) .comment 0 := by
      intro line
      simp only [step, newlineLen_none_of_head b _ hb1.1 hb1.2, hspan]
    refine ⟨2, fun fuel line => ?_⟩
    simp only [List.cons_append]
    rw [show fuel + 2 = (fuel + 1) + 1 from rfl, scan_skip cfg (fuel + 1) _ _ _ _ _ _ _ (hstep line)]
    have hdrop : (b :: (bs ++ '\n' :: rest)).drop (max (bs.length + 1) 1) = '\n' :: rest := by
      have : max (bs.length + 1) 1 = bs.length + 1 := by omega
      rw [this]; simp
    rw [hdrop, scan_skip cfg fuel _ _ _ _ _ _ _ (hnl (line + 0))]; simp

/-- **C02_comment_skipped**: `-- … <LF>` in front of a text produces no token and advances the line by one. -/
theorem C02_comment_skipped (cfg : Cfg) (body rest : Str) (hb : noEol body) :
    ∃ k, ∀ fuel line, scan cfg (fuel + k) .initial line ('-' :: '-' :: (body ++ '\n' :: rest)) =
      scan cfg fuel .initial (line + 1) rest := by
  obtain ⟨k, hk⟩ := scan_comment_body cfg body rest hb
  refine ⟨k + 1, fun fuel line => ?_⟩
  rw [← Nat.add_assoc, scan_skip cfg (fuel + k) _ _ _ _ _ _ _ (step_comment_start cfg line _)]
  have : ('-' :: '-' :: (body ++ '\n' :: rest)).drop (max 2 1) = body ++ '\n' :: rest := by simp
  rw [this, hk]

/-! ### separators of any length -/

/-- `Skips s n r`: `s` is a separator (a run of blanks and comments) followed by `r`, with `n` line ends -/
inductive Skips : Str → Nat → Str → Prop
  | refl (s : Str) : Skips s 0 s
  | space {s n r} : Skips s n r → Skips (' ' :: s) n r
  | tab {s n r} : Skips s n r → Skips ('\t' :: s) n r
  | lf {s n r} : Skips s n r → Skips ('\n' :: s) (n + 1) r
  | crlf {s n r} : Skips s n r → Skips ('\r' :: '\n' :: s) (n + 1) r
  | comment {s n r} (body : Str) : noEol body → Skips s n r → Skips ('-' :: '-' :: (body ++ '\n' :: s)) (n + 1) r

/-- **skipping lemma**: a separator costs a fixed number of steps and leaves only the line counter changed -/
theorem scan_skips (cfg : Cfg) (s r : Str) (n : Nat) (h : Skips s n r) :
    ∃ k, ∀ fuel line, scan cfg (fuel + k) .initial line s = scan cfg fuel .initial (line + n) r := by
  induction h with
  | refl s => exact ⟨0, fun fuel line => rfl⟩
  | space _ ih =>
    obtain ⟨k, hk⟩ := ih
    exact ⟨k + 1, fun fuel line => by rw [← Nat.add_assoc, (C02_blank_skipped cfg _ line _).1, hk]⟩
  | tab _ ih =>
    obtain ⟨k, hk⟩ := ih
    exact ⟨k + 1, fun fuel line => by rw [← Nat.add_assoc, (C02_blank_skipped cfg _ line _).2.1, hk]⟩
  | lf _ ih =>
    obtain ⟨k, hk⟩ := ih
    refine ⟨k + 1, fun fuel line => ?_⟩
    rw [← Nat.add_assoc, (C02_blank_skipped cfg _ line _).2.2.1, hk]
    congr 1; omega
  | crlf _ ih =>
    obtain ⟨k, hk⟩ := ih
    refine ⟨k + 1, fun fuel line => ?_⟩
    rw [← Nat.add_assoc, (C02_blank_skipped cfg _ line _).2.2.2, hk]
    congr 1; omega
  | @comment s' n' r' body hb _ ih =>
    obtain ⟨k, hk⟩ := ih
    obtain ⟨kc, hkc⟩ := C02_comment_skipped cfg body s' hb
    refine ⟨k + kc, fun fuel line => ?_⟩
    rw [← Nat.add_assoc, hkc, hk]
    congr 1; omega

/-- forget line numbers -/
def strip (r : Except LexErr (List Tok)) : Except ErrKind (List (String × TokVal)) :=
  match r with
  | .ok ts => .ok (ts.map (fun t => (t.ty, t.val)))
  | .error (.err k _) => .error k
  | .error .outOfFuel => .error .plyLexError     -- never reached with enough fuel (C11_lexer_terminates)

def Step.shape : Step → Option (Option (String × TokVal) × Nat × LexState × Nat) ⊕ ErrKind
  | .tok t n next lines => .inl (some (some (t.ty, t.val), n, next, lines))
  | .skip n next lines => .inl (some (none, n, next, lines))
  | .err k => .inr k

/-- a step does not look at the line counter except to stamp it on the token -/
theorem step_line_indep (cfg : Cfg) (st : LexState) (l1 l2 : Nat) (s : Str) :
    (step cfg st l1 s).shape = (step cfg st l2 s).shape := by
  cases st <;> unfold step <;> simp only <;> repeat' split
  all_goals first | rfl | simp_all [Step.shape]

theorem scan_line_indep (cfg : Cfg) : ∀ (fuel : Nat) (st : LexState) (l1 l2 : Nat) (s : Str),
    strip (scan cfg fuel st l1 s) = strip (scan cfg fuel st l2 s) := by
  intro fuel
  induction fuel with
  | zero => intro st l1 l2 s; rfl
  | succ fuel ih =>
    intro st l1 l2 s
    unfold scan
    cases s with
    | nil => rfl
    | cons c cs =>
      simp only
      have hsh := step_line_indep cfg st l1 l2 (c :: cs)
      cases h1 : step cfg st l1 (c :: cs) with
      | err k =>
        cases h2 : step cfg st l2 (c :: cs) <;> simp_all [Step.shape, strip]
      | tok t n next lines =>
        cases h2 : step cfg st l2 (c :: cs) with
        | tok t' n' next' lines' =>
          simp only [h1, h2, Step.shape, Sum.inl.injEq, Option.some.injEq, Prod.mk.injEq] at hsh
          obtain ⟨⟨hty, hval⟩, hn, hnext, hlines⟩ := hsh
          subst hn hnext hlines
          have := ih next (l1 + lines) (l2 + lines) ((c :: cs).drop (max n 1))
          cases ha : scan cfg fuel next (l1 + lines) ((c :: cs).drop (max n 1)) <;>
            cases hb : scan cfg fuel next (l2 + lines) ((c :: cs).drop (max n 1)) <;>
            simp_all [strip, Except.map]
          all_goals (split at this <;> simp_all)
        | skip _ _ _ => simp_all [Step.shape]
        | err _ => simp_all [Step.shape]
      | skip n next lines =>
        cases h2 : step cfg st l2 (c :: cs) with
        | skip n' next' lines' =>
          simp only [h1, h2, Step.shape, Sum.inl.injEq, Option.some.injEq, Prod.mk.injEq, true_and] at hsh
          obtain ⟨hn, hnext, hlines⟩ := hsh
          subst hn hnext hlines
          exact ih _ _ _ _
        | tok _ _ _ _ => simp_all [Step.shape]
        | err _ => simp_all [Step.shape]

/-- **C02_separator_irrelevant**: two texts that differ only in the separator in front of the same
remaining text have the same tokens (types and values) — whatever the separators' length, their mix of
spaces, tabs, line ends and comments, and whatever the comments say. -/
theorem C02_separator_irrelevant (cfg : Cfg) (s1 s2 r : Str) (n1 n2 : Nat) (h1 : Skips s1 n1 r) (h2 : Skips s2 n2 r) :
    ∃ k1 k2, ∀ fuel line1 line2,
      strip (scan cfg (fuel + k1) .initial line1 s1) = strip (scan cfg (fuel + k2) .initial line2 s2) := by
  obtain ⟨k1, hk1⟩ := scan_skips cfg s1 r n1 h1
  obtain ⟨k2, hk2⟩ := scan_skips cfg s2 r n2 h2
  exact ⟨k1, k2, fun fuel l1 l2 => by rw [hk1, hk2]; exact scan_line_indep cfg fuel .initial _ _ r⟩

/-! ### opaque blocks -/

theorem newlineLen_le_of_append (body : Str) (x : Char) (rest : Str) (n : Nat) (hx1 : x ≠ '\r') (hx2 : x ≠ '\n')
    (h : newlineLen (body ++ x :: rest) = some n) : n ≤ body.length := by
  cases body with
  | nil => simp [newlineLen, hx1, hx2] at h
  | cons b bs =>
    simp only [List.cons_append, newlineLen] at h
    by_cases h1 : b = '\r'
    · by_cases h2 : (bs ++ x :: rest).head? = some '\n'
      · simp only [h1, h2, if_true, Option.some.injEq] at h
        cases bs with
        | nil => simp at h2; exact absurd h2 hx2
        | cons b2 bs2 => subst h; simp
      · simp only [h1, h2, if_true, if_false, Option.some.injEq] at h
        subst h; simp
    · by_cases h3 : b = '\n'
      · subst h3
        simp at h
        subst h; simp
      · simp [h1, h3] at h

/-- the body of a block ended by `stop` (`;` for EXPORTS, `}` for CHOICE) is skipped whatever it contains:
afterwards the lexer is back in the INITIAL state at the text that follows, only the line counter has moved -/
theorem scan_block (cfg : Cfg) (st : LexState) (stop : Char) (hst : (st = .exports ∧ stop = ';') ∨ (st = .choice ∧ stop = '}')) :
    ∀ (len : Nat) (body rest : Str), body.length ≤ len → (∀ c ∈ body, c ≠ stop) →
      ∃ k d, ∀ fuel line, scan cfg (fuel + k) st line (body ++ stop :: rest) = scan cfg fuel .initial (line + d) rest := by
  have hstop1 : stop ≠ '\r' := by rcases hst with ⟨_, h⟩ | ⟨_, h⟩ <;> subst h <;> decide
  have hstop2 : stop ≠ '\n' := by rcases hst with ⟨_, h⟩ | ⟨_, h⟩ <;> subst h <;> decide
  have hend : ∀ line rest, step cfg st line (stop :: rest) = .skip 1 .initial 0 := by
    intro line rest
    rcases hst with ⟨h1, h2⟩ | ⟨h1, h2⟩ <;> subst h1 h2 <;> simp [step, newlineLen]
  intro len
  induction len with
  | zero =>
    intro body rest hl _
    have : body = [] := List.eq_nil_of_length_eq_zero (by omega)
    subst this
    refine ⟨1, 0, fun fuel line => ?_⟩
    simp only [List.nil_append]
    rw [scan_skip cfg fuel _ _ _ _ _ _ _ (hend line rest)]; simp
  | succ len ih =>
    intro body rest hl hb
    cases body with
    | nil => exact ih [] rest (by simp) (by simp)
    | cons b bs =>
      cases hnl : newlineLen ((b :: bs) ++ stop :: rest) with
      | some n =>
        have hn1 := newlineLen_pos _ _ hnl
        have hnle := newlineLen_le_of_append (b :: bs) stop rest n hstop1 hstop2 hnl
        obtain ⟨k, d, hk⟩ := ih ((b :: bs).drop n) rest (by simp only [List.length_drop, List.length_cons] at hl hnle ⊢; omega)
          (fun c hc => hb c (List.mem_of_mem_drop hc))
        refine ⟨k + 1, d + 1, fun fuel line => ?_⟩
        have hstep : step cfg st line (b :: (bs ++ stop :: rest)) = .skip n st 1 := by
          have hnl' : newlineLen (b :: (bs ++ stop :: rest)) = some n := by simpa using hnl
          rcases hst with ⟨h1, _⟩ | ⟨h1, _⟩ <;> subst h1 <;> simp only [step, hnl']
        simp only [List.cons_append]
        rw [← Nat.add_assoc, scan_skip cfg (fuel + k) _ _ _ _ _ _ _ hstep]
        have hdrop : (b :: (bs ++ stop :: rest)).drop (max n 1) = (b :: bs).drop n ++ stop :: rest := by
          have : max n 1 = n := by omega
          rw [this, ← List.cons_append, List.drop_append_of_le_length hnle]
        rw [hdrop, hk]
        congr 1; omega
      | none =>
        have hbstop : ∀ x ∈ (b :: bs), (x != stop) = true := fun x hx => by simpa using hb x hx
        have hspan : spanLen (· != stop) (b :: (bs ++ stop :: rest)) = bs.length + 1 := by
          have := spanLen_append_stop (· != stop) (b :: bs) stop rest hbstop (by simp)
          simpa using this
        have hbne : b ≠ stop := hb b (by simp)
        have hnl' : newlineLen (b :: (bs ++ stop :: rest)) = none := by simpa using hnl
        let d := countNewlines ((b :: (bs ++ stop :: rest)).take (bs.length + 1))
        have hd' : ∀ line, step cfg st line (b :: (bs ++ stop :: rest)) = .skip (bs.length + 1) st d := by
          intro line
          rcases hst with ⟨h1, h2⟩ | ⟨h1, h2⟩ <;> subst h1 h2
          · simp only [step, hnl']
            split
            · rename_i hh; injection hh with hh _; exact absurd hh hbne
            · rw [hspan]
          · simp only [step, hnl']
            split
            · rename_i hh; injection hh with hh _; exact absurd hh hbne
            · rw [hspan]
        refine ⟨2, d, fun fuel line => ?_⟩
        simp only [List.cons_append]
        rw [show fuel + 2 = (fuel + 1) + 1 from rfl, scan_skip cfg (fuel + 1) _ _ _ _ _ _ _ (hd' line)]
        have hdrop : (b :: (bs ++ stop :: rest)).drop (max (bs.length + 1) 1) = stop :: rest := by
          have : max (bs.length + 1) 1 = bs.length + 1 := by omega
          rw [this]; simp
        rw [hdrop, scan_skip cfg fuel _ _ _ _ _ _ _ (hend (line + d) rest)]; simp

/-- **C02_exports_opaque**: inside `EXPORTS … ;` nothing but the terminator matters: any two bodies give
the same tokens for the text that follows. -/
theorem C02_exports_opaque (cfg : Cfg) (b1 b2 rest : Str) (h1 : ∀ c ∈ b1, c ≠ ';') (h2 : ∀ c ∈ b2, c ≠ ';') :
    ∃ k1 k2, ∀ fuel l1 l2, strip (scan cfg (fuel + k1) .exports l1 (b1 ++ ';' :: rest)) =
      strip (scan cfg (fuel + k2) .exports l2 (b2 ++ ';' :: rest)) := by
  obtain ⟨k1, d1, hk1⟩ := scan_block cfg .exports ';' (Or.inl ⟨rfl, rfl⟩) b1.length b1 rest (Nat.le_refl _) h1
  obtain ⟨k2, d2, hk2⟩ := scan_block cfg .exports ';' (Or.inl ⟨rfl, rfl⟩) b2.length b2 rest (Nat.le_refl _) h2
  exact ⟨k1, k2, fun fuel l1 l2 => by rw [hk1, hk2]; exact scan_line_indep cfg fuel .initial _ _ rest⟩

/-- **C02_choice_opaque**: the same for `CHOICE { … }`. -/
theorem C02_choice_opaque (cfg : Cfg) (b1 b2 rest : Str) (h1 : ∀ c ∈ b1, c ≠ '}') (h2 : ∀ c ∈ b2, c ≠ '}') :
    ∃ k1 k2, ∀ fuel l1 l2, strip (scan cfg (fuel + k1) .choice l1 (b1 ++ '}' :: rest)) =
      strip (scan cfg (fuel + k2) .choice l2 (b2 ++ '}' :: rest)) := by
  obtain ⟨k1, d1, hk1⟩ := scan_block cfg .choice '}' (Or.inr ⟨rfl, rfl⟩) b1.length b1 rest (Nat.le_refl _) h1
  obtain ⟨k2, d2, hk2⟩ := scan_block cfg .choice '}' (Or.inr ⟨rfl, rfl⟩) b2.length b2 rest (Nat.le_refl _) h2
  exact ⟨k1, k2, fun fuel l1 l2 => by rw [hk1, hk2]; exact scan_line_indep cfg fuel .initial _ _ rest⟩

/-! ### number values -/

/-- decimal digits of `n`, most significant first -/
def decimal (n : Nat) : Str := (Nat.toDigits 10 n)

/-- **C02_number_value**: the value the lexer computes for a digit string built most-significant-digit
first is the number those digits denote (Horner's rule), for every length. -/
theorem C02_number_value (ds : List Nat) (h : ∀ d ∈ ds, d < 10) :
    parseNat (ds.map (fun d => Char.ofNat (48 + d))) = ds.foldl (fun a d => a * 10 + d) 0 := by
  unfold parseNat
  have hdig : ∀ d, d < 10 → (Char.ofNat (48 + d)).toNat - 48 = d := by decide
  have : ∀ (ds : List Nat) (acc : Nat), (∀ d ∈ ds, d < 10) →
      (ds.map (fun d => Char.ofNat (48 + d))).foldl (fun a c => a * 10 + (c.toNat - 48)) acc =
        ds.foldl (fun a d => a * 10 + d) acc := by
    intro ds
    induction ds with
    | nil => intro acc _; rfl
    | cons d ds ih =>
      intro acc hd
      simp only [List.map_cons, List.foldl_cons, hdig d (hd d (by simp))]
      exact ih _ (fun x hx => hd x (by simp [hx]))
  exact this ds 0 h

/-! ### non-vacuity -/
example : Skips " \t-- a comment\n\r\n x".toList 2 "x".toList :=
  .space (.tab (.comment " a comment".toList (by unfold noEol; decide) (.crlf (.space (.refl _)))))

end Pysmi.Lexer

namespace Pysmi.Py

/-- the translated body of the list-building actions (`imports`, `enumItems`, `Objects`, …):
`if n == 4: p[0] = p[1] + [p[3]]  elif n == 2: p[0] = [p[1]]` -/
def listBuilder : List Stmt :=
  [.ite (.eq (.var "n") (.int 4)) [.setP0 (.add (.p 1) (.list [.p 3]))]
    [.ite (.eq (.var "n") (.int 2)) [.setP0 (.list [.p 1])] []]]

/-- **C02_list_append_in_order**: the first item starts the list, every further item is appended at the
end — so the list is in source order whatever its length. -/
theorem C02_list_append_in_order (xs : List PyVal) (sep y : PyVal) :
    runAction listBuilder [y] = .ok (.list [y]) ∧
    runAction listBuilder [.list xs, sep, y] = .ok (.list (xs ++ [y])) := by
  constructor <;>
    simp [runAction, listBuilder, execAll, exec, eval, evalList, PyVal.truthy, BEq.beq, PyVal.beq, bind, Except.bind,
      pure, Except.pure]

/-- folding the builder over the items of a list yields exactly those items, in order -/
theorem list_builder_fold (y0 : PyVal) (ys : List (PyVal × PyVal)) :
    ys.foldl (fun (acc : Except String PyVal) sy => Except.bind acc (fun a => runAction listBuilder [a, sy.1, sy.2]))
      (runAction listBuilder [y0]) = Except.ok (.list (y0 :: ys.map (·.2))) := by
  rw [(C02_list_append_in_order [] .none y0).1]
  have : ∀ (ys : List (PyVal × PyVal)) (xs : List PyVal),
      ys.foldl (fun (acc : Except String PyVal) sy => Except.bind acc (fun a => runAction listBuilder [a, sy.1, sy.2]))
        (Except.ok (.list xs)) = Except.ok (.list (xs ++ ys.map (·.2))) := by
    intro ys
    induction ys with
    | nil => intro xs; simp
    | cons sy ys ih =>
      intro xs
      rw [List.foldl_cons]
      have hstep : Except.bind (Except.ok (PyVal.list xs)) (fun a => runAction listBuilder [a, sy.1, sy.2]) =
          Except.ok (.list (xs ++ [sy.2])) := (C02_list_append_in_order xs sy.1 sy.2).2
      rw [hstep, ih]; simp
  exact this ys [y0]

end Pysmi.Py
