import Pysmi.Model.Struct
/-!
# C06 — references between objects keep their targets, order and module attribution

For lists of any length, any mix of local and imported objects, any number of import clauses.
-/
namespace Pysmi.Struct

/-- **C06_importmap_spec**: a symbol is attributed to a module iff some import clause of that module
lists it and no later clause (in sorted module order) does. -/
theorem C06_importmap_spec (imports : List (Module × List Name)) (n : Name) (m : Module) :
    importMap imports n = some m ↔
      ∃ pre post syms, imports = pre ++ (m, syms) :: post ∧ n ∈ syms ∧ ∀ e ∈ post, n ∉ e.2 := by
  unfold importMap
  -- generalise the accumulator
  have key : ∀ (l : List (Module × List Name)) (acc : Option Module),
      l.foldl (fun acc e => if e.2.contains n then some e.1 else acc) acc = some m ↔
        ((∃ pre post syms, l = pre ++ (m, syms) :: post ∧ n ∈ syms ∧ ∀ e ∈ post, n ∉ e.2) ∨
         (acc = some m ∧ ∀ e ∈ l, n ∉ e.2)) := by
    intro l
    induction l with
    | nil => intro acc; simp
    | cons e rest ih =>
      intro acc
      simp only [List.foldl_cons]
      rw [ih]
      constructor
      · rintro (⟨pre, post, syms, h1, h2, h3⟩ | ⟨h1, h2⟩)
        · exact Or.inl ⟨e :: pre, post, syms, by simp [h1], h2, h3⟩
        · by_cases hc : e.2.contains n = true
          · simp only [hc, if_true, Option.some.injEq] at h1
            left
            refine ⟨[], rest, e.2, ?_, by simpa using hc, h2⟩
            cases e; simp_all
          · simp only [hc, Bool.false_eq_true, if_false] at h1
            right
            refine ⟨h1, ?_⟩
            intro x hx
            rcases List.mem_cons.mp hx with rfl | hx
            · simpa using hc
            · exact h2 x hx
      · rintro (⟨pre, post, syms, h1, h2, h3⟩ | ⟨h1, h2⟩)
        · cases pre with
          | nil =>
            simp only [List.nil_append, List.cons.injEq] at h1
            obtain ⟨rfl, rfl⟩ := h1
            right
            have : (syms.contains n) = true := by simpa using h2
            simp only [this, if_true, true_and]
            exact h3
          | cons p pre =>
            simp only [List.cons_append, List.cons.injEq] at h1
            obtain ⟨rfl, rfl⟩ := h1
            exact Or.inl ⟨pre, post, syms, rfl, h2, h3⟩
        · right
          have hn : n ∉ e.2 := h2 e (by simp)
          have : e.2.contains n = false := by simpa using hn
          simp only [this, Bool.false_eq_true, if_false]
          exact ⟨h1, fun x hx => h2 x (by simp [hx])⟩
  rw [key]
  simp

/-- **C06_object_lists**: OBJECTS / NOTIFICATIONS / VARIABLES lists keep every object, in the written
order, each attributed to the module it is imported from, else to the current module. -/
theorem C06_object_lists (imports : List (Module × List Name)) (self : Module) (xs : List Name) :
    (genObjects imports self xs).map (·.object) = xs ∧
    (genObjects imports self xs).length = xs.length ∧
    ∀ r ∈ genObjects imports self xs,
      r.module = match importMap imports r.object with | some m => m | none => self := by
  refine ⟨?_, by simp [genObjects], ?_⟩
  · simp [genObjects, mkRef, Function.comp_def]
  · intro r hr
    simp only [genObjects, List.mem_map] at hr
    obtain ⟨x, _, rfl⟩ := hr
    simp only [mkRef]
    cases importMap imports x <;> rfl

/-- **C06_indices**: INDEX lists keep their order, IMPLIED flags and module attribution. -/
theorem C06_indices (imports : List (Module × List Name)) (self : Module) (idx : List (Bool × Name)) :
    (genTableIndex imports self idx).map (fun r => (r.implied, r.object)) = idx ∧
    ∀ r ∈ genTableIndex imports self idx,
      r.module = match importMap imports r.object with | some m => m | none => self := by
  constructor
  · simp [genTableIndex, Function.comp_def]
  · intro r hr
    simp only [genTableIndex, List.mem_map] at hr
    obtain ⟨i, _, rfl⟩ := hr
    simp only
    cases importMap imports i.2 <;> rfl

/-- **C06_compliance**: the groups of every MODULE clause, in order, attributed to the named module or,
when none is named, the current one. -/
theorem C06_compliance (self : Module) (mods : List (Option Module × List Name)) :
    (genCompliances self mods).map (·.object) = mods.flatMap (·.2) ∧
    ∀ cm ∈ mods, ∀ g ∈ cm.2, (⟨match cm.1 with | some m => m | none => self, g⟩ : Ref) ∈ genCompliances self mods := by
  constructor
  · simp only [genCompliances, List.map_flatMap, List.map_map]
    congr 1
    funext cm
    simp [Function.comp_def]
  · intro cm hcm g hg
    simp only [genCompliances, List.mem_flatMap, List.mem_map]
    refine ⟨cm, hcm, g, hg, ?_⟩
    cases cm.1 <;> rfl

/-- **C06_nodetype**: the classification as a declarative statement over the *whole* module's row-type
and column sets (so it cannot depend on the order of declarations). -/
theorem C06_nodetype (rows cols : List Name) (name : Name) (syn : Syn) :
    (nodeType rows cols name syn = .column ↔ name ∈ cols) ∧
    (nodeType rows cols name syn = .table ↔ name ∉ cols ∧ ∃ r, syn = .seqOf r) ∧
    (nodeType rows cols name syn = .row ↔ name ∉ cols ∧ ∃ t, syn = .named t ∧ t ∈ rows) := by
  unfold nodeType
  by_cases hc : cols.contains name = true
  · have hm : name ∈ cols := by simpa using hc
    simp [hc, hm]
  · have hm : name ∉ cols := by simpa using hc
    simp only [hc, Bool.false_eq_true, if_false, hm, not_false_eq_true, true_and, iff_false]
    cases syn with
    | seqOf r => simp
    | named t =>
      by_cases hr : rows.contains t = true
      · have : t ∈ rows := by simpa using hr
        simp [hr, this]
      · have : t ∉ rows := by simpa using hr
        simp [hr, this]
    | bits => simp
    | other => simp

theorem nodeType_perm_invariant (rows rows' cols cols' : List Name) (hr : ∀ x, x ∈ rows ↔ x ∈ rows')
    (hc : ∀ x, x ∈ cols ↔ x ∈ cols') (name : Name) (syn : Syn) :
    nodeType rows cols name syn = nodeType rows' cols' name syn := by
  unfold nodeType
  have h1 : cols.contains name = cols'.contains name := by
    rw [Bool.eq_iff_iff]; simp [hc]
  rw [h1]
  cases syn with
  | named t =>
    have h2 : rows.contains t = rows'.contains t := by rw [Bool.eq_iff_iff]; simp [hr]
    simp only [h2]
  | _ => rfl

/-! ### non-vacuity -/
example : importMap [(1, [10, 11]), (2, [11]), (3, [12])] 11 = some 2 := by decide
example : genTableIndex [(1, [10])] 9 [(false, 10), (true, 20)] = [⟨1, 10, false⟩, ⟨9, 20, true⟩] := by decide
example : nodeType [5] [7] 7 (.named 5) = .column ∧ nodeType [5] [7] 8 (.named 5) = .row ∧
    nodeType [5] [7] 8 (.seqOf 5) = .table ∧ nodeType [5] [7] 8 .bits = .scalar := by decide

end Pysmi.Struct
