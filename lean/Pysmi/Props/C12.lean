import Pysmi.Model.Obj
import Pysmi.Generated.Fields
/-!
# C12 — results depend only on the input: no state leaks, no hash-seed dependence

* `C12_history_independent`: for an object whose entry method re-initialises `resets` and whose body reads only
  `reads` and writes only `writes`, if every field read is reset on entry or never written (`Covered`), the output of a
  call does not depend on the calls made before — for every history, valid or not, of any length.
* `C12_covered_*`: `Covered` holds for the tables regenerated from the source of `SymtableCodeGen`,
  `IntermediateCodeGen`, `PySnmpCodeGen`, `JsonCodeGen` and `SmiV2Parser` (decided by the kernel on every run).
* `C12_leak_witness`: the condition is not decoration — an object reading a field it writes and never resets has
  history-dependent output.
* `C12_parser_history_independent`: `parse()` with `reset()` in `finally` answers as a fresh parser after any history;
  `parseFrom_fresh` ties the object model to `LR.parse`.
* `C12_sorted_order_free`: a list built by iterating a set (any enumeration order) and then sorted is the same for
  every enumeration; `C12_unsorted_witness`: without sorting it is not.
* `pin_setIterations_*`: the places where the source iterates a set without `sorted(...)` are pinned; each is
  order-insensitive (membership updates, an error that names the first offender).
-/
namespace Pysmi.Obj

variable {Val In Out : Type}

/-- fields that are never written keep their initial value -/
def Inv (c : Cls Val In Out) (writes : List Field) (s : Field → Val) : Prop := ∀ f, f ∉ writes → s f = c.init f

theorem inv_step (c : Cls Val In Out) (reads writes : List Field) (hf : Frame c reads writes)
    (s : Field → Val) (x : In) (h : Inv c writes s) : Inv c writes (c.step s x).1 := by
  intro f hw
  unfold Cls.step
  rw [hf.writes_only _ _ _ hw]
  unfold Cls.enter
  split
  · rfl
  · exact h f hw

theorem inv_run (c : Cls Val In Out) (reads writes : List Field) (hf : Frame c reads writes) (h : List In) :
    Inv c writes (c.run h) := by
  unfold Cls.run
  suffices ∀ s, Inv c writes s → Inv c writes (h.foldl (fun s x => (c.step s x).1) s) from this _ (fun _ _ => rfl)
  induction h with
  | nil => intro s hs; exact hs
  | cons x xs ih => intro s hs; exact ih _ (inv_step c reads writes hf s x hs)

/-- **C12_history_independent** -/
theorem C12_history_independent (c : Cls Val In Out) (reads writes : List Field) (hf : Frame c reads writes)
    (hcov : Covered reads writes c.resets) (h : List In) (x : In) :
    (c.step (c.run h) x).2 = (c.step c.init x).2 := by
  unfold Cls.step
  apply hf.reads_only
  intro f hr
  unfold Cls.enter
  rcases hcov f hr with hz | hw
  · simp [hz]
  · by_cases hz : f ∈ c.resets
    · simp [hz]
    · simp only [hz, if_false]
      exact inv_run c reads writes hf h f hw

/-- a two-field object in the style of `_moduleRevision`: the body writes `rev` only when the input carries a revision
and reports `rev`; it is not reset on entry -/
def leaky : Cls (Option Nat) (Option Nat) (Option Nat) where
  init := fun _ => none
  resets := ["out"]
  body := fun s x =>
    let s' : Field → Option Nat := fun f => if f = "rev" then (match x with | some r => some r | none => s "rev") else s f
    (s', s' "rev")

/-- **C12_leak_witness**: `rev` is read, written and not reset: `Covered` fails and the same input gives different
outputs after different histories. -/
theorem C12_leak_witness :
    ¬ Covered ["rev"] ["rev"] leaky.resets ∧
    (leaky.step (leaky.run [some 7]) none).2 ≠ (leaky.step leaky.init none).2 := by
  constructor
  · decide
  · decide

/-! ### the parser object -/

/-- the object model started fresh is the model of `parse` used by C02/C11/C17 -/
theorem parseFrom_fresh (cfg : Lexer.Cfg) (T : LR.Tables) (A : LR.Actions) (text : List Char) :
    (parseFrom cfg T A ParserObj.fresh text).1 = LR.parse cfg T A text := rfl

def runParser (cfg : Lexer.Cfg) (T : LR.Tables) (A : LR.Actions) (h : List (List Char)) : ParserObj :=
  h.foldl (fun o t => (parseCall cfg T A o t).2) ParserObj.fresh

theorem runParser_fresh (cfg : Lexer.Cfg) (T : LR.Tables) (A : LR.Actions) (h : List (List Char)) :
    runParser cfg T A h = ParserObj.fresh := by
  unfold runParser
  induction h with
  | nil => rfl
  | cons t ts ih => simpa [List.foldl_cons, parseCall] using ih

/-- **C12_parser_history_independent**: after any sequence of texts - accepted, rejected by the lexer or by the
parser - the same parser object answers the next text exactly as a fresh one, i.e. as `LR.parse`. -/
theorem C12_parser_history_independent (cfg : Lexer.Cfg) (T : LR.Tables) (A : LR.Actions) (h : List (List Char)) (text : List Char) :
    (parseCall cfg T A (runParser cfg T A h) text).1 = LR.parse cfg T A text := by
  rw [runParser_fresh]; rfl

/-! ### set iteration -/

section
variable {α : Type} (le : α → α → Bool)

/-- **C12_sorted_order_free**: `sorted(set(xs))` does not depend on the order in which the set hands out its
elements (two enumerations of one set are permutations of each other). -/
theorem C12_sorted_order_free
    (trans : ∀ a b c, le a b = true → le b c = true → le a c = true)
    (total : ∀ a b, (le a b || le b a) = true)
    (antisymm : ∀ a b, le a b = true → le b a = true → a = b)
    (e1 e2 : List α) (hp : e1.Perm e2) : e1.mergeSort le = e2.mergeSort le := by
  apply List.Perm.eq_of_pairwise (le := fun a b => le a b = true)
  · intro a b _ _ h1 h2; exact antisymm a b h1 h2
  · exact List.pairwise_mergeSort trans total e1
  · exact List.pairwise_mergeSort trans total e2
  · exact ((List.mergeSort_perm e1 le).trans hp).trans (List.mergeSort_perm e2 le).symm
end

/-- **C12_unsorted_witness**: without sorting, two enumerations of the same set give different output lists. -/
theorem C12_unsorted_witness : ∃ e1 e2 : List Nat, e1.Perm e2 ∧ e1 ≠ e2 ∧
    e1.mergeSort (fun a b => decide (a ≤ b)) = e2.mergeSort (fun a b => decide (a ≤ b)) :=
  ⟨[1, 2], [2, 1], by decide, by decide,
   C12_sorted_order_free _ (fun a b c h1 h2 => by simp only [decide_eq_true_eq] at *; omega)
     (fun a b => by simp only [Bool.or_eq_true, decide_eq_true_eq]; omega)
     (fun a b h1 h2 => by simp only [decide_eq_true_eq] at *; omega) _ _ (by decide)⟩

end Pysmi.Obj

namespace Pysmi.Generated.Fields
open Pysmi.Obj

theorem C12_covered_symtable : Covered symtable_reads symtable_writes symtable_resets := by decide +kernel
theorem C12_covered_intermediate : Covered intermediate_reads intermediate_writes intermediate_resets := by decide +kernel
theorem C12_covered_pysnmp : Covered pysnmp_reads pysnmp_writes pysnmp_resets := by decide +kernel
theorem C12_covered_jsondoc : Covered jsondoc_reads jsondoc_writes jsondoc_resets := by decide +kernel
theorem C12_covered_parser : Covered parser_reads parser_writes parser_resets := by decide +kernel
/-- `MibCompiler.compile` keeps all per-call state in locals: it writes no instance field at all -/
theorem C12_covered_compiler : Covered compiler_reads compiler_writes compiler_resets ∧ compiler_writes = [] := by decide +kernel

/-- **C12_no_class_level_state**: no function or method of the package stores into an object that lives at class level
(a table assigned in a class body and never re-bound on the instance: `self.X[k] = v`, `self.X.append(..)`, `Cls.X[k] = v`,
`Cls.X = ..`, or the same through a local bound to it).  Class-level objects are shared by every instance and - the lexer and
parser dialects being subclasses made at run time - by every dialect, so such a store is state that outlives the object and
crosses dialects; the table is regenerated from all modules of the package on every run (`fieldflow.shared_class_writes`).
Stores through a *copy* are not seen by the analysis (and are not shared state unless the copy is shallow over nested objects:
that residue stays with the history streams). -/
theorem C12_no_class_level_state : classLevelWrites = [] ∧ 40 ≤ classLevelModules := by decide

/-! unsorted set iterations left in the source; why each is harmless:
* symtable `list(self._rows)`: `_symtable_rows` is only used for membership tests by the second pass
* symtable `for sym in self._parentOids`: raises for the first unknown parent found; all of them are unknown, only the one
  named in the message may differ
* symtable `set(imports[module])`: feeds a dict update keyed by symbol with a value that does not depend on the order -/
theorem pin_setIterations_symtable : symtable_setIterations =
    [("genCode", "list(self._rows)"), ("genCode", "self._parentOids"), ("genImports", "set(imports[module])")] := rfl
theorem pin_setIterations_intermediate : intermediate_setIterations = [] := rfl
theorem pin_setIterations_pysnmp : pysnmp_setIterations = [] := rfl
theorem pin_setIterations_jsondoc : jsondoc_setIterations = [] := rfl
theorem pin_setIterations_parser : parser_setIterations = [] := rfl
theorem pin_setIterations_compiler : compiler_setIterations = [] := rfl

end Pysmi.Generated.Fields
