import Pysmi.Props.C08
/-!
# C08, continued — lookups happen once and in source order; the import closure is covered

* `C08_sources_in_order`: the lookups one discovery step makes for a name are sources 0, 1, 2, … in the order they were
  added, without gaps or repetitions, and stop at the first source whose file parses and registers;
* `C08_fetch_once`: over a whole call of `compile` every source is asked for every name at most once — whatever the import
  graph (cycles, self-imports, several modules per file, aliases), the number of sources and the outcomes;
* `C08_closure`: when every file holds the module it is named after, the discovery loop ends with every requested name and
  every name in the IMPORTS of every module it parsed settled (parsed, or recorded as failed / missing).
-/
namespace Pysmi.Compile
open Pysmi

def Call.isGet : Call → Bool
  | .get _ _ => true
  | _ => false

/-- the lookups among some calls, in order -/
def gets (t : List Call) : List Call := t.filter Call.isGet

/-- `s'` continues the trace of `s` and nothing else of what the lemmas below speak about -/
structure Ext (s s' : St) (ext : List Call) : Prop where
  trace : s'.trace = s.trace ++ ext

theorem gets_append (a b : List Call) : gets (a ++ b) = gets a ++ gets b := by simp [gets]

theorem registerTree_trace (req : List Name) (s : St) (n alias : Name) (mtime : Int) (tree : Nat) (name : Name)
    (imports : List Name) : (registerTree req s n alias mtime tree name imports).trace = s.trace := by
  unfold registerTree
  simp only
  have e1 : ∀ (t : St) (k : Name), (clearStale t k).trace = t.trace := by
    intro t k; unfold clearStale; split <;> rfl
  split <;> simp [e1]

theorem symTrees_trace (c : Cfg) (req : List Name) (n alias : Name) (mtime : Int) (ts : List Nat) (s : St) :
    ∃ ext, (symTrees c req n alias mtime ts s).1.trace = s.trace ++ ext ∧ gets ext = [] := by
  induction ts generalizing s with
  | nil => exact ⟨[], by simp [symTrees], rfl⟩
  | cons t ts ih =>
    unfold symTrees
    simp only
    split
    · exact ⟨[.sym t], by simp [St.log], rfl⟩
    · rename_i name imps _
      obtain ⟨ext, h1, h2⟩ := ih (registerTree req (s.log (.sym t)) n alias mtime t name imps)
      refine ⟨.sym t :: ext, ?_, ?_⟩
      · rw [h1, registerTree_trace]; simp [St.log]
      · simpa [gets, Call.isGet] using h2

theorem failSource_trace (s : St) (n : Name) (e : Err) : (failSource s n e).trace = s.trace := rfl

/-- **source order**: the lookups `trySources` makes for `n` are sources `i, i+1, …` in the order they were added, without gaps
or repetitions, stopping at the first source whose file parses and registers -/
theorem trySources_gets (c : Cfg) (req : List Name) (n : Name) (srcs : List (Name → SrcAns)) :
    ∀ (i : Nat) (s : St), ∃ ext len, (trySources c req n srcs i s).trace = s.trace ++ ext ∧ len ≤ srcs.length ∧
      gets ext = (List.range' i len).map (fun j => Call.get j n) := by
  induction srcs with
  | nil =>
    intro i s
    refine ⟨[], 0, ?_, Nat.le_refl _, rfl⟩
    unfold trySources
    simp only
    split <;> split <;> simp
  | cons src rest ih =>
    intro i s
    unfold trySources
    simp only
    split
    · obtain ⟨ext, len, h1, h2, h3⟩ := ih (i + 1) (s.log (.get i n))
      refine ⟨.get i n :: ext, len + 1, by rw [h1]; simp [St.log], by simp; omega, ?_⟩
      simp only [gets, List.filter_cons, Call.isGet, if_true] at h3 ⊢
      rw [h3]; simp [List.range'_succ]
    · obtain ⟨ext, len, h1, h2, h3⟩ := ih (i + 1) (failSource (s.log (.get i n)) n (.call (.get i n)))
      refine ⟨.get i n :: ext, len + 1, by rw [h1]; simp [St.log, failSource_trace], by simp; omega, ?_⟩
      simp only [gets, List.filter_cons, Call.isGet, if_true] at h3 ⊢
      rw [h3]; simp [List.range'_succ]
    · rename_i alias mtime text _
      split
      · obtain ⟨ext, len, h1, h2, h3⟩ := ih (i + 1) (failSource ((s.log (.get i n)).log (.parse text)) n (.call (.parse text)))
        refine ⟨.get i n :: .parse text :: ext, len + 1, by rw [h1]; simp [St.log, failSource_trace], by simp; omega, ?_⟩
        simp only [gets, List.filter_cons, Call.isGet, if_true, Bool.false_eq_true, if_false] at h3 ⊢
        rw [h3]; simp [List.range'_succ]
      · obtain ⟨ext, len, h1, h2, h3⟩ := ih (i + 1) (failSource ((s.log (.get i n)).log (.parse text)) n (.noModule i n))
        refine ⟨.get i n :: .parse text :: ext, len + 1, by rw [h1]; simp [St.log, failSource_trace], by simp; omega, ?_⟩
        simp only [gets, List.filter_cons, Call.isGet, if_true, Bool.false_eq_true, if_false] at h3 ⊢
        rw [h3]; simp [List.range'_succ]
      · rename_i ts _ _
        obtain ⟨e0, hs1, hs2⟩ := symTrees_trace c req n alias mtime ts ((s.log (.get i n)).log (.parse text))
        split
        · rename_i st e hst
          rw [hst] at hs1
          obtain ⟨ext, len, h1, h2, h3⟩ := ih (i + 1) (failSource st n e)
          refine ⟨.get i n :: .parse text :: (e0 ++ ext), len + 1, ?_, by simp; omega, ?_⟩
          · rw [h1, failSource_trace]; simp only at hs1; rw [hs1]; simp [St.log]
          · simp only [gets, List.filter_cons, Call.isGet, if_true, Bool.false_eq_true, if_false, List.filter_append] at h3 hs2 ⊢
            rw [h3, hs2]; simp [List.range'_succ]
        · rename_i st hst
          rw [hst] at hs1
          refine ⟨.get i n :: .parse text :: e0, 1, ?_, by simp, ?_⟩
          · simp only at hs1; rw [hs1]; simp [St.log]
          · simp only [gets, List.filter_cons, Call.isGet, if_true, Bool.false_eq_true, if_false] at hs2 ⊢
            rw [hs2]; simp [List.range'_succ]


/-- **C08_sources_in_order** -/
theorem C08_sources_in_order (c : Cfg) (req : List Name) (n : Name) (s : St) :
    ∃ ext len, (trySources c req n c.sources 0 s).trace = s.trace ++ ext ∧ len ≤ c.sources.length ∧
      gets ext = (List.range' 0 len).map (fun j => Call.get j n) :=
  trySources_gets c req n c.sources 0 s

theorem clearStale_fetched (t : St) (k : Name) : (clearStale t k).fetched = t.fetched := by
  unfold clearStale; split <;> rfl

theorem registerTree_fetched (req : List Name) (s : St) (n alias : Name) (mtime : Int) (tree : Nat) (name : Name)
    (imports : List Name) : (registerTree req s n alias mtime tree name imports).fetched = s.fetched := by
  unfold registerTree
  simp only
  split <;> simp [clearStale_fetched]

theorem symTrees_fetched (c : Cfg) (req : List Name) (n alias : Name) (mtime : Int) (ts : List Nat) (s : St) :
    (symTrees c req n alias mtime ts s).1.fetched = s.fetched := by
  induction ts generalizing s with
  | nil => rfl
  | cons t ts ih =>
    unfold symTrees
    simp only
    split
    · rfl
    · rw [ih, registerTree_fetched]; rfl

theorem trySources_fetched (c : Cfg) (req : List Name) (n : Name) (srcs : List (Name → SrcAns)) :
    ∀ (i : Nat) (s : St), (trySources c req n srcs i s).fetched = s.fetched := by
  induction srcs with
  | nil => intro i s; unfold trySources; simp only; split <;> split <;> rfl
  | cons src rest ih =>
    intro i s
    unfold trySources
    simp only
    split
    · rw [ih]; rfl
    · rw [ih]; rfl
    · rename_i alias mtime text _
      split
      · rw [ih]; rfl
      · rw [ih]; rfl
      · rename_i ts _ _
        have hf := symTrees_fetched c req n alias mtime ts ((s.log (.get i n)).log (.parse text))
        split
        · rename_i st e hst
          rw [hst] at hf
          rw [ih]; exact hf
        · rename_i st hst
          rw [hst] at hf
          exact hf

/-- each (source, name) pair was looked up at most once, and only names recorded as looked up -/
def GInv (s : St) : Prop :=
  ∀ j m, (gets s.trace).count (.get j m) ≤ 1 ∧ (0 < (gets s.trace).count (.get j m) → m ∈ s.fetched)

theorem count_range_map (n : Name) (i len j : Nat) (m : Name) :
    ((List.range' i len).map (fun k => Call.get k n)).count (.get j m) ≤ 1 ∧
    (m ≠ n → ((List.range' i len).map (fun k => Call.get k n)).count (.get j m) = 0) := by
  constructor
  · apply List.nodup_iff_count.mp
    have hn : (List.range' i len).Nodup := List.nodup_range'
    exact List.Pairwise.map (fun k => Call.get k n) (fun a b hab h => hab (by injection h)) hn
  · intro hne
    apply List.count_eq_zero.mpr
    intro h
    obtain ⟨k, _, hk⟩ := List.mem_map.mp h
    injection hk with _ h2
    exact hne h2.symm

theorem ginv_discoverStep (c : Cfg) (req : List Name) (n : Name) (s : St) (h : GInv s) : GInv (discoverStep c req n s) := by
  unfold discoverStep
  split
  · exact h
  · split
    · exact h
    · split
      · exact h
      · rename_i _ _ hnf
        obtain ⟨ext, len, h1, _, h3⟩ := trySources_gets c req n c.sources 0 { s with fetched := n :: s.fetched }
        have hf := trySources_fetched c req n c.sources 0 { s with fetched := n :: s.fetched }
        intro j m
        rw [h1, gets_append, List.count_append, h3, hf]
        obtain ⟨r1, r2⟩ := count_range_map n 0 len j m
        obtain ⟨g1, g2⟩ := h j m
        by_cases hm : m = n
        · subst hm
          have hz : (gets s.trace).count (.get j m) = 0 := by
            by_cases hp : 0 < (gets s.trace).count (.get j m)
            · exact absurd (g2 hp) hnf
            · omega
          simp only at hz ⊢
          constructor
          · omega
          · intro _; simp
        · have := r2 hm
          constructor
          · simp only at g1 ⊢; omega
          · intro hp
            simp only at hp
            exact List.mem_cons_of_mem _ (g2 (by omega))

theorem ginv_discover (c : Cfg) (req : List Name) (fuel : Nat) (s s' : St) (h : GInv s)
    (hd : discover c req fuel s = some s') : GInv s' := by
  induction fuel generalizing s with
  | zero => simp [discover] at hd
  | succ fuel ih =>
    unfold discover at hd
    split at hd
    · injection hd with hd; rw [← hd]; exact h
    · exact ih _ (ginv_discoverStep c req _ _ (by intro j m; exact h j m)) hd


/-! later phases make no lookups -/

theorem searchLoop_gets (n : Name) (mtime : Int) (rebuild : Bool) (srs : List (Name → Int → Bool → SearchAns)) (i : Nat) :
    gets (searchLoop n mtime rebuild srs i).2 = [] := by
  induction srs generalizing i with
  | nil => rfl
  | cons sr rest ih =>
    unfold searchLoop
    split
    · rfl
    · simpa [gets, Call.isGet] using ih (i + 1)

theorem borrowLoop_gets (n : Name) (g : Bool) (bs : List (Name → Bool → BorrowAns)) (i : Nat) :
    gets (borrowLoop n g bs i).2 = [] := by
  induction bs generalizing i with
  | nil => rfl
  | cons b rest ih =>
    unfold borrowLoop
    split
    · rfl
    · simpa [gets, Call.isGet] using ih (i + 1)

theorem needStep_gets (c : Cfg) (o : Opts) (s : St) (n : Name) : gets (needStep c o s n).trace = gets s.trace := by
  unfold needStep
  split
  · rfl
  · rename_i a mtime t _
    simp only
    split
    · simp [gets_append, searchLoop_gets]
    · split <;> simp [gets_append, searchLoop_gets]

theorem genStep_gets (c : Cfg) (o : Opts) (s : St) (n : Name) : gets (genStep c o s n).trace = gets s.trace := by
  unfold genStep
  split
  · rfl
  · simp only
    split <;> simp [St.log, gets, Call.isGet]

theorem borrowStep_gets (c : Cfg) (req : List Name) (o : Opts) (s : St) (n : Name) :
    gets (borrowStep c req o s n).trace = gets s.trace := by
  unfold borrowStep
  split
  · rfl
  · simp only
    split <;> simp [gets_append, borrowLoop_gets]

theorem needBorrowStep_gets (c : Cfg) (req : List Name) (o : Opts) (s : St) (n : Name) :
    gets (needBorrowStep c req o s n).trace = gets s.trace := by
  unfold needBorrowStep
  split
  · rfl
  · simp only
    split
    · simp [gets_append, searchLoop_gets]
    · split <;> simp [gets_append, searchLoop_gets]

theorem storeStep_gets (c : Cfg) (o : Opts) (s : St) (n : Name) : gets (storeStep c o s n).trace = gets s.trace := by
  unfold storeStep
  cases s.built.get? n with
  | none => rfl
  | some r =>
    obtain ⟨alias, mtime, data⟩ := r
    simp only
    cases o.writeMibs <;> cases c.put n data o.dryRun <;> simp [St.log, gets, Call.isGet] <;> split <;> simp [Call.isGet]

theorem foldl_gets {α} (f : St → α → St) (hf : ∀ s a, gets (f s a).trace = gets s.trace) (l : List α) (s : St) :
    gets (l.foldl f s).trace = gets s.trace := by
  induction l generalizing s with
  | nil => rfl
  | cons a l ih => simp only [List.foldl_cons]; rw [ih, hf]

theorem afterGate_gets (c : Cfg) (o : Opts) (s : St) : gets (afterGate c o s).trace = gets s.trace := by
  unfold afterGate
  split
  · rfl
  · exact foldl_gets _ (storeStep_gets c o) _ _

/-- **C08_fetch_once**: in a call of `compile`, every source is asked for every name at most once - whatever the import
graph (cycles, self-imports, aliases), the number of sources and the outcomes. -/
theorem C08_fetch_once (c : Cfg) (req : List Name) (o : Opts) (fuel : Nat) (out : Out) (h : run c req o fuel = some out)
    (j : Nat) (m : Name) : out.trace.count (.get j m) ≤ 1 := by
  unfold run beforeGate at h
  cases hd : discover c req fuel { queue := req } with
  | none => simp [hd] at h
  | some s0 =>
    simp only [hd, Option.map_some, Option.some.injEq] at h
    have hg : GInv s0 := ginv_discover c req fuel _ s0 (by intro j m; simp [gets]) hd
    have hcount : ∀ (t : List Call), t.count (.get j m) = (gets t).count (.get j m) := by
      intro t
      unfold gets
      rw [List.count_filter]
      rfl
    rw [← h]
    simp only
    rw [hcount, afterGate_gets]
    unfold phaseNeedBorrow phaseBorrow phaseGen phaseNeed
    rw [foldl_gets _ (needBorrowStep_gets c req o), foldl_gets _ (borrowStep_gets c req o), foldl_gets _ (genStep_gets c o),
      foldl_gets _ (needStep_gets c o)]
    exact (hg j m).1


/-! ### closure: what the discovery loop leaves behind -/

theorem contains_set_self {ν} (d : AList Name ν) (k : Name) (v : ν) : (d.set k v).contains k = true := by
  simp [AList.contains, AList.get?_set_eq]

theorem contains_set_of {ν} (d : AList Name ν) (k x : Name) (v : ν) (h : d.contains x = true) : (d.set k v).contains x = true := by
  by_cases hx : k = x
  · subst hx; exact contains_set_self d k v
  · simpa [AList.contains, AList.get?_set_ne d k x v hx] using h

theorem contains_del_ne {ν} (d : AList Name ν) (k x : Name) (hx : k ≠ x) (h : d.contains x = true) : (d.del k).contains x = true := by
  simpa [AList.contains, AList.get?_del_ne d k x hx] using h

theorem mem_set {ν} (d : AList Name ν) (k : Name) (v : ν) (e : Name × ν) (h : e ∈ d.set k v) : e = (k, v) ∨ e ∈ d := by
  induction d with
  | nil => simp [AList.set] at h; exact Or.inl h
  | cons e0 rest ih =>
    obtain ⟨k', v'⟩ := e0
    unfold AList.set at h
    by_cases hk : k' = k
    · simp only [hk, if_true, List.mem_cons] at h
      rcases h with h | h
      · left; rw [h]
      · right; exact List.mem_cons_of_mem _ h
    · simp only [hk, if_false, List.mem_cons] at h
      rcases h with h | h
      · right; rw [h]; simp
      · rcases ih h with h1 | h1
        · exact Or.inl h1
        · exact Or.inr (List.mem_cons_of_mem _ h1)

/-- every file holds only the module it is named after -/
def Aligned (c : Cfg) : Prop :=
  ∀ src ∈ c.sources, ∀ n alias mtime text ts, src n = .ok alias mtime text → c.parse text = .trees ts →
    ∀ t ∈ ts, ∀ name imps, c.sym t = .ok name imps → name = n

/-- a name is settled: the module is parsed, or the name is recorded as failed / missing -/
def Done (s : St) (x : Name) : Prop := s.parsed.contains x = true ∨ s.failed.contains x = true

def importsOf (c : Cfg) (tree : Nat) : List Name :=
  match c.sym tree with
  | .ok _ imps => imps
  | .error => []

/-- the closure invariant, with the name `n` that is being looked up exempt -/
structure WInv (c : Cfg) (req : List Name) (n : Name) (s : St) : Prop where
  reqs : ∀ x ∈ req, x ∈ s.queue ∨ Done s x ∨ x = n
  imps : ∀ e ∈ s.parsed, ∀ x ∈ importsOf c e.2.2.2, x ∈ s.queue ∨ Done s x ∨ x = n
  fetched : ∀ x ∈ s.fetched, Done s x ∨ x = n

theorem winv_log {c : Cfg} {req : List Name} {n : Name} {s : St} (k : Call) (h : WInv c req n s) : WInv c req n (s.log k) :=
  ⟨h.reqs, h.imps, h.fetched⟩

theorem done_failSource (s : St) (n : Name) (e : Err) (x : Name) (h : Done s x) : Done (failSource s n e) x := by
  unfold failSource Done at *
  rcases h with h | h
  · exact Or.inl h
  · exact Or.inr (contains_set_of _ _ _ _ h)

theorem done_failSource_self (s : St) (n : Name) (e : Err) : Done (failSource s n e) n :=
  Or.inr (contains_set_self _ _ _)

theorem winv_failSource {c : Cfg} {req : List Name} {n : Name} {s : St} (e : Err) (h : WInv c req n s) :
    WInv c req n (failSource s n e) := by
  refine ⟨?_, ?_, ?_⟩
  · intro x hx
    rcases h.reqs x hx with h1 | h1 | h1
    · exact Or.inl h1
    · exact Or.inr (Or.inl (done_failSource s n e x h1))
    · exact Or.inr (Or.inr h1)
  · intro e0 he x hx
    rcases h.imps e0 he x hx with h1 | h1 | h1
    · exact Or.inl h1
    · exact Or.inr (Or.inl (done_failSource s n e x h1))
    · exact Or.inr (Or.inr h1)
  · intro x hx
    rcases h.fetched x hx with h1 | h1
    · exact Or.inl (done_failSource s n e x h1)
    · exact Or.inr h1

theorem clearStale_parsed (t : St) (k : Name) : (clearStale t k).parsed = t.parsed := by
  unfold clearStale; split <;> rfl
theorem clearStale_queue (t : St) (k : Name) : (clearStale t k).queue = t.queue := by
  unfold clearStale; split <;> rfl

theorem clearStale_failed_ne (t : St) (k x : Name) (hx : k ≠ x) (h : t.failed.contains x = true) :
    (clearStale t k).failed.contains x = true := by
  unfold clearStale
  split
  · exact contains_del_ne _ _ _ hx h
  · exact h

/-- registering the module `n` itself (aligned files): everything settled stays settled, `n` becomes settled,
its imports join the queue -/
theorem registerTree_aligned (c : Cfg) (req : List Name) (s : St) (n alias : Name) (mtime : Int) (tree : Nat) (imports : List Name)
    (hsym : c.sym tree = .ok n imports) (h : WInv c req n s) :
    WInv c req n (registerTree req s n alias mtime tree n imports) ∧
    (registerTree req s n alias mtime tree n imports).parsed.contains n = true := by
  have hp : (registerTree req s n alias mtime tree n imports).parsed = s.parsed.set n (alias, mtime, tree) := by
    unfold registerTree; simp only; split <;> simp [clearStale_parsed]
  have hq : (registerTree req s n alias mtime tree n imports).queue = s.queue ++ imports := by
    unfold registerTree; simp only; split <;> simp [clearStale_queue]
  have hfe : (registerTree req s n alias mtime tree n imports).fetched = s.fetched := registerTree_fetched ..
  have hf : ∀ x, x ≠ n → s.failed.contains x = true → (registerTree req s n alias mtime tree n imports).failed.contains x = true := by
    intro x hx hc
    unfold registerTree; simp only
    have := clearStale_failed_ne (clearStale { s with parsed := s.parsed.set n (alias, mtime, tree) } n) n x (fun e => hx e.symm)
      (clearStale_failed_ne { s with parsed := s.parsed.set n (alias, mtime, tree) } n x (fun e => hx e.symm) hc)
    split <;> exact this
  have hself : (registerTree req s n alias mtime tree n imports).parsed.contains n = true := by
    rw [hp]; exact contains_set_self _ _ _
  have hdone : ∀ x, Done s x → Done (registerTree req s n alias mtime tree n imports) x := by
    intro x hx
    by_cases hxn : x = n
    · subst hxn; exact Or.inl hself
    · rcases hx with hx | hx
      · left; rw [hp]; exact contains_set_of _ _ _ _ hx
      · right; exact hf x hxn hx
  refine ⟨⟨?_, ?_, ?_⟩, hself⟩
  · intro x hx
    rcases h.reqs x hx with h1 | h1 | h1
    · left; rw [hq]; exact List.mem_append_left _ h1
    · exact Or.inr (Or.inl (hdone x h1))
    · exact Or.inr (Or.inr h1)
  · intro e he x hx
    rw [hp] at he
    rcases mem_set _ _ _ _ he with he | he
    · -- the new entry: its imports were just queued
      subst he
      simp only [importsOf, hsym] at hx
      left; rw [hq]; exact List.mem_append_right _ hx
    · rcases h.imps e he x hx with h1 | h1 | h1
      · left; rw [hq]; exact List.mem_append_left _ h1
      · exact Or.inr (Or.inl (hdone x h1))
      · exact Or.inr (Or.inr h1)
  · intro x hx
    rw [hfe] at hx
    rcases h.fetched x hx with h1 | h1
    · exact Or.inl (hdone x h1)
    · exact Or.inr h1


theorem symTrees_aligned (c : Cfg) (req : List Name) (n alias : Name) (mtime : Int) (ts : List Nat)
    (hal : ∀ t ∈ ts, ∀ name imps, c.sym t = .ok name imps → name = n) :
    ∀ (s : St), WInv c req n s →
      WInv c req n (symTrees c req n alias mtime ts s).1 ∧
      ((symTrees c req n alias mtime ts s).2 = none → ts ≠ [] → (symTrees c req n alias mtime ts s).1.parsed.contains n = true) ∧
      (s.parsed.contains n = true → (symTrees c req n alias mtime ts s).1.parsed.contains n = true) := by
  induction ts with
  | nil => intro s h; exact ⟨h, fun _ hne => absurd rfl hne, fun hp => hp⟩
  | cons t ts ih =>
    intro s h
    unfold symTrees
    simp only
    cases hsym : c.sym t with
    | error =>
      refine ⟨winv_log _ h, ?_, fun hp => hp⟩
      intro he; cases he
    | ok name imps =>
      simp only
      have hname : name = n := hal t (by simp) name imps hsym
      subst hname
      obtain ⟨h1, hself⟩ := registerTree_aligned c req (s.log (.sym t)) name alias mtime t imps hsym (winv_log _ h)
      obtain ⟨i1, _, i3⟩ := ih (fun t' ht' => hal t' (List.mem_cons_of_mem _ ht')) _ h1
      exact ⟨i1, fun _ _ => i3 hself, fun _ => i3 hself⟩

/-- the lookup of `n` settles `n` and keeps the closure invariant -/
theorem trySources_closure (c : Cfg) (req : List Name) (n : Name) (srcs : List (Name → SrcAns))
    (hal : ∀ src ∈ srcs, ∀ alias mtime text ts, src n = .ok alias mtime text → c.parse text = .trees ts →
      ∀ t ∈ ts, ∀ name imps, c.sym t = .ok name imps → name = n) :
    ∀ (i : Nat) (s : St), WInv c req n s → WInv c req n (trySources c req n srcs i s) ∧ Done (trySources c req n srcs i s) n := by
  induction srcs with
  | nil =>
    intro i s h
    unfold trySources
    simp only
    generalize hs1 : (if s.failed.contains n = true then s else { s with failed := s.failed.set n () }) = s1
    have hd : Done s1 n := by
      rw [← hs1]
      split
      · rename_i hc; exact Or.inr hc
      · exact Or.inr (contains_set_self _ _ _)
    have hw : WInv c req n s1 := by
      rw [← hs1]
      split
      · exact h
      · refine ⟨?_, ?_, ?_⟩
        · intro x hx
          rcases h.reqs x hx with h1 | h1 | h1
          · exact Or.inl h1
          · refine Or.inr (Or.inl ?_)
            rcases h1 with h1 | h1
            · exact Or.inl h1
            · exact Or.inr (contains_set_of _ _ _ _ h1)
          · exact Or.inr (Or.inr h1)
        · intro e he x hx
          rcases h.imps e he x hx with h1 | h1 | h1
          · exact Or.inl h1
          · refine Or.inr (Or.inl ?_)
            rcases h1 with h1 | h1
            · exact Or.inl h1
            · exact Or.inr (contains_set_of _ _ _ _ h1)
          · exact Or.inr (Or.inr h1)
        · intro x hx
          rcases h.fetched x hx with h1 | h1
          · left
            rcases h1 with h1 | h1
            · exact Or.inl h1
            · exact Or.inr (contains_set_of _ _ _ _ h1)
          · exact Or.inr h1
    split
    · exact ⟨hw, hd⟩
    · exact ⟨⟨hw.reqs, hw.imps, hw.fetched⟩, hd⟩
  | cons src rest ih =>
    intro i s h
    have hal' : ∀ src ∈ rest, ∀ alias mtime text ts, src n = .ok alias mtime text → c.parse text = .trees ts →
        ∀ t ∈ ts, ∀ name imps, c.sym t = .ok name imps → name = n :=
      fun src' hs' => hal src' (List.mem_cons_of_mem _ hs')
    unfold trySources
    simp only
    cases hsrc : src n with
    | notFound => exact ih hal' _ _ (winv_log _ h)
    | error => exact ih hal' _ _ (winv_failSource _ (winv_log _ h))
    | ok alias mtime text =>
      simp only
      cases hparse : c.parse text with
      | error => exact ih hal' _ _ (winv_failSource _ (winv_log _ (winv_log _ h)))
      | trees ts =>
        cases ts with
        | nil => exact ih hal' _ _ (winv_failSource _ (winv_log _ (winv_log _ h)))
        | cons t0 ts0 =>
          simp only
          obtain ⟨w1, w2, _⟩ := symTrees_aligned c req n alias mtime (t0 :: ts0)
            (hal src (by simp) alias mtime text (t0 :: ts0) hsrc hparse) _ (winv_log (.parse text) (winv_log (.get i n) h))
          cases hst : symTrees c req n alias mtime (t0 :: ts0) ((s.log (.get i n)).log (.parse text)) with
          | mk st oe =>
            rw [hst] at w1 w2
            cases oe with
            | some e => exact ih hal' _ _ (winv_failSource _ w1)
            | none => exact ⟨w1, Or.inl (w2 rfl (by simp))⟩

/-- the closure invariant proper -/
structure CInv (c : Cfg) (req : List Name) (s : St) : Prop where
  reqs : ∀ x ∈ req, x ∈ s.queue ∨ Done s x
  imps : ∀ e ∈ s.parsed, ∀ x ∈ importsOf c e.2.2.2, x ∈ s.queue ∨ Done s x
  fetched : ∀ x ∈ s.fetched, Done s x

theorem cinv_discoverStep (c : Cfg) (hal : Aligned c) (req : List Name) (n : Name) (q : List Name) (s : St)
    (hq : s.queue = n :: q) (h : CInv c req s) : CInv c req (discoverStep c req n { s with queue := q }) := by
  -- popping `n`: everything that relied on `n` being queued now relies on `n` being settled (or still queued)
  have pop : ∀ x, (x ∈ s.queue ∨ Done s x) → (x ∈ q ∨ Done ({ s with queue := q } : St) x ∨ x = n) := by
    intro x hx
    rcases hx with hx | hx
    · rw [hq] at hx
      rcases List.mem_cons.mp hx with hx | hx
      · exact Or.inr (Or.inr hx)
      · exact Or.inl hx
    · exact Or.inr (Or.inl hx)
  have settle : Done ({ s with queue := q } : St) n → CInv c req { s with queue := q } := by
    intro hd
    refine ⟨?_, ?_, h.fetched⟩
    · intro x hx
      rcases pop x (h.reqs x hx) with h1 | h1 | h1
      · exact Or.inl h1
      · exact Or.inr h1
      · subst h1; exact Or.inr hd
    · intro e he x hx
      rcases pop x (h.imps e he x hx) with h1 | h1 | h1
      · exact Or.inl h1
      · exact Or.inr h1
      · subst h1; exact Or.inr hd
  unfold discoverStep
  split
  · rename_i hp; exact settle (Or.inl hp)
  · split
    · rename_i hf; exact settle (Or.inr hf)
    · split
      · rename_i hfe; exact settle (h.fetched n hfe)
      · have hw : WInv c req n ({ s with queue := q, fetched := n :: s.fetched } : St) := by
          refine ⟨?_, ?_, ?_⟩
          · intro x hx; exact pop x (h.reqs x hx)
          · intro e he x hx; exact pop x (h.imps e he x hx)
          · intro x hx
            rcases List.mem_cons.mp hx with hx | hx
            · exact Or.inr hx
            · exact Or.inl (h.fetched x hx)
        obtain ⟨w, hd⟩ := trySources_closure c req n c.sources (fun src hs => hal src hs n) 0 _ hw
        refine ⟨?_, ?_, ?_⟩
        · intro x hx
          rcases w.reqs x hx with h1 | h1 | h1
          · exact Or.inl h1
          · exact Or.inr h1
          · subst h1; exact Or.inr hd
        · intro e he x hx
          rcases w.imps e he x hx with h1 | h1 | h1
          · exact Or.inl h1
          · exact Or.inr h1
          · subst h1; exact Or.inr hd
        · intro x hx
          rcases w.fetched x hx with h1 | h1
          · exact h1
          · subst h1; exact hd

theorem cinv_discover (c : Cfg) (hal : Aligned c) (req : List Name) (fuel : Nat) (s s' : St) (h : CInv c req s)
    (hd : discover c req fuel s = some s') : CInv c req s' ∧ s'.queue = [] := by
  induction fuel generalizing s with
  | zero => simp [discover] at hd
  | succ fuel ih =>
    unfold discover at hd
    split at hd
    · rename_i hq
      injection hd with hd
      rw [← hd]; exact ⟨h, hq⟩
    · rename_i n q hq
      exact ih _ (cinv_discoverStep c hal req n q s hq h) hd

/-- **C08_closure**: when every file holds the module it is named after, the discovery loop ends with every requested
name, and every name in the IMPORTS of every module it parsed, settled - parsed, or recorded as failed / missing: the
import closure of the request is covered, for every import graph (cycles, self-imports) and every outcome assignment. -/
theorem C08_closure (c : Cfg) (hal : Aligned c) (req : List Name) (fuel : Nat) (s : St)
    (hd : discover c req fuel { queue := req } = some s) :
    (∀ x ∈ req, Done s x) ∧ (∀ e ∈ s.parsed, ∀ x ∈ importsOf c e.2.2.2, Done s x) := by
  have h0 : CInv c req ({ queue := req } : St) :=
    ⟨fun x hx => Or.inl hx, fun e he => (by cases he), fun x hx => (by cases hx)⟩
  obtain ⟨h, hq⟩ := cinv_discover c hal req fuel _ s h0 hd
  constructor
  · intro x hx
    rcases h.reqs x hx with h1 | h1
    · rw [hq] at h1; cases h1
    · exact h1
  · intro e he x hx
    rcases h.imps e he x hx with h1 | h1
    · rw [hq] at h1; cases h1
    · exact h1

end Pysmi.Compile
