import Pysmi.Lemmas.Index
import Pysmi.Lemmas.DotPrefix
/-!
# C18 — the OID→module index covers every indexed OID and merges monotonically

Full statement (the property as given): for every old index, every list of (module, summary)
results and every module `m` with OID `o` in its summary, the `oids` section of
`genIndex`'s result has a key `k` that is a component-wise prefix of `o` and lists `m`;
a module is listed only under OIDs it defines (or the old index attributed to it); the old
index's identity/enterprise/compliance entries and every cover survive; re-indexing the
same results changes nothing.

Everything below is for *all* old indexes, module lists and OID sets (induction over the
module list and the compaction loop), generic in the prefix test, then instantiated with
the string test the code performs.
-/
namespace Pysmi.Index
set_option linter.unusedSectionVars false

variable {κ μ : Type} [DecidableEq κ] [DecidableEq μ]

/-- A prefix test is *admissible* when it is reflexive and transitive. -/
structure Admissible (pref : κ → κ → Bool) : Prop where
  refl : ∀ a, pref a a = true
  trans : ∀ a b c, pref a b = true → pref b c = true → pref a c = true

/-! ### the accumulation loop -/

theorem addModules_oids_mono (ms : List (μ × Summary κ)) (old : Idx κ μ) (x : μ) (k : κ)
    (h : Listed old.oids x k) : Listed (addModules old ms).oids x k := by
  induction ms generalizing old with
  | nil => exact h
  | cons e ms ih => exact ih _ (by unfold stepModule; exact listed_addAll_mono _ _ h)

theorem addModules_oids_own (ms : List (μ × Summary κ)) (old : Idx κ μ) (m : μ) (s : Summary κ)
    (hm : (m, s) ∈ ms) (o : κ) (ho : o ∈ s.oids) : Listed (addModules old ms).oids m o := by
  induction ms generalizing old with
  | nil => cases hm
  | cons e ms ih =>
    rcases List.mem_cons.mp hm with h | h
    · subst h
      refine addModules_oids_mono ms (stepModule old (m, s)) m o ?_
      have : (stepModule old (m, s)).oids = addAll old.oids s.oids m := by simp [stepModule]
      rw [this]; exact listed_addAll_self _ _ _ ho
    · exact ih _ h

theorem addModules_oids_inv (ms : List (μ × Summary κ)) (old : Idx κ μ) (x : μ) (k : κ)
    (h : Listed (addModules old ms).oids x k) :
    Listed old.oids x k ∨ ∃ s, (x, s) ∈ ms ∧ k ∈ s.oids := by
  induction ms generalizing old with
  | nil => exact Or.inl h
  | cons e ms ih =>
    rcases ih (old := stepModule old e) h with h | ⟨s, h1, h2⟩
    · have : (stepModule old e).oids = addAll old.oids e.2.oids e.1 := by simp [stepModule]
      rw [this] at h
      rcases listed_addAll_inv _ _ h with h | ⟨h1, h2⟩
      · exact Or.inl h
      · exact Or.inr ⟨e.2, by rw [h1]; simp, h2⟩
    · exact Or.inr ⟨s, List.mem_cons_of_mem _ h1, h2⟩

theorem build_oids (pref : κ → κ → Bool) (depth : κ → Nat) (old : Idx κ μ) (ms : List (μ × Summary κ)) :
    (build pref depth old ms).oids = compactOids pref depth (addModules old ms).oids := rfl
theorem build_identity (pref : κ → κ → Bool) (depth : κ → Nat) (old : Idx κ μ) (ms : List (μ × Summary κ)) :
    (build pref depth old ms).identity = (addModules old ms).identity := rfl
theorem build_enterprise (pref : κ → κ → Bool) (depth : κ → Nat) (old : Idx κ μ) (ms : List (μ × Summary κ)) :
    (build pref depth old ms).enterprise = (addModules old ms).enterprise := rfl
theorem build_compliance (pref : κ → κ → Bool) (depth : κ → Nat) (old : Idx κ μ) (ms : List (μ × Summary κ)) :
    (build pref depth old ms).compliance = (addModules old ms).compliance := rfl

/-! ### C18_cover -/

theorem build_covers_mono (pref : κ → κ → Bool) (depth : κ → Nat) (ha : Admissible pref)
    (ms : List (μ × Summary κ)) (old : Idx κ μ) (m : μ) (o : κ) (h : Covers pref old.oids m o) :
    Covers pref (build pref depth old ms).oids m o := by
  rw [build_oids]
  apply covers_compactOids pref depth ha.refl ha.trans
  obtain ⟨k, hk, hl⟩ := h
  exact ⟨k, hk, addModules_oids_mono ms old m k hl⟩

/-- **C18_cover** (generic): every OID of every indexed module is covered by a key that lists
the module. -/
theorem C18_cover_generic (pref : κ → κ → Bool) (depth : κ → Nat) (ha : Admissible pref)
    (old : Idx κ μ) (ms : List (μ × Summary κ)) (m : μ) (s : Summary κ) (hm : (m, s) ∈ ms)
    (o : κ) (ho : o ∈ s.oids) : Covers pref (build pref depth old ms).oids m o := by
  rw [build_oids]
  apply covers_compactOids pref depth ha.refl ha.trans
  exact ⟨o, ha.refl o, addModules_oids_own ms old m s hm o ho⟩

/-- **C18_cover** for the code's string test: the covering key is a *component-wise* prefix. -/
theorem C18_cover (old : Idx Str Str) (ms : List (Str × Summary Str)) (m : Str) (s : Summary Str)
    (hm : (m, s) ∈ ms) (o : Str) (ho : o ∈ s.oids) :
    ∃ k mods, (k, mods) ∈ (buildStr old ms).oids ∧ splitDot k <+: splitDot o ∧ m ∈ mods := by
  obtain ⟨k, hk, mods, h1, h2⟩ :=
    C18_cover_generic dotPrefix dotCount ⟨dotPrefix_refl, dotPrefix_trans⟩ old ms m s hm o ho
  exact ⟨k, mods, h1, (dotPrefix_iff k o).mp hk, h2⟩

/-! ### C18_only_own -/

/-- **C18_only_own**: a module is listed under a key only if the old index listed it there or
one of its results defines that OID. -/
theorem C18_only_own (pref : κ → κ → Bool) (depth : κ → Nat) (old : Idx κ μ)
    (ms : List (μ × Summary κ)) (x : μ) (k : κ) (h : Listed (build pref depth old ms).oids x k) :
    Listed old.oids x k ∨ ∃ s, (x, s) ∈ ms ∧ k ∈ s.oids := by
  rw [build_oids] at h
  exact addModules_oids_inv ms old x k (listed_compactOids_inv pref depth _ x k h)

/-! ### C18_identity_sections -/

theorem build_identity_mono (pref : κ → κ → Bool) (depth : κ → Nat) (ms : List (μ × Summary κ))
    (old : Idx κ μ) (x : μ) (k : κ) (h : Listed old.identity x k) :
    Listed (build pref depth old ms).identity x k := by
  rw [build_identity]
  induction ms generalizing old with
  | nil => exact h
  | cons e ms ih => exact ih _ (by unfold stepModule; exact listed_addOpt_mono _ _ h)

theorem build_enterprise_mono (pref : κ → κ → Bool) (depth : κ → Nat) (ms : List (μ × Summary κ))
    (old : Idx κ μ) (x : μ) (k : κ) (h : Listed old.enterprise x k) :
    Listed (build pref depth old ms).enterprise x k := by
  rw [build_enterprise]
  induction ms generalizing old with
  | nil => exact h
  | cons e ms ih => exact ih _ (by unfold stepModule; exact listed_addOpt_mono _ _ h)

theorem build_compliance_mono (pref : κ → κ → Bool) (depth : κ → Nat) (ms : List (μ × Summary κ))
    (old : Idx κ μ) (x : μ) (k : κ) (h : Listed old.compliance x k) :
    Listed (build pref depth old ms).compliance x k := by
  rw [build_compliance]
  induction ms generalizing old with
  | nil => exact h
  | cons e ms ih => exact ih _ (by unfold stepModule; exact listed_addAll_mono _ _ h)

/-- **C18_identity_sections**: each module is listed under its identity, enterprise and every
compliance OID. -/
theorem C18_identity_sections (pref : κ → κ → Bool) (depth : κ → Nat) (old : Idx κ μ)
    (ms : List (μ × Summary κ)) (m : μ) (s : Summary κ) (hm : (m, s) ∈ ms) :
    (∀ k, s.identity = some k → Listed (build pref depth old ms).identity m k) ∧
    (∀ k, s.enterprise = some k → Listed (build pref depth old ms).enterprise m k) ∧
    (∀ k, k ∈ s.compliance → Listed (build pref depth old ms).compliance m k) := by
  induction ms generalizing old with
  | nil => cases hm
  | cons e ms ih =>
    rcases List.mem_cons.mp hm with h | h
    · subst h
      refine ⟨fun k hk => ?_, fun k hk => ?_, fun k hk => ?_⟩
      · refine build_identity_mono pref depth ms (stepModule old (m, s)) m k ?_
        have : (stepModule old (m, s)).identity = appendAt old.identity k m := by
          simp [stepModule, hk, addOpt]
        rw [this]; exact appendAt_self _ _ _
      · refine build_enterprise_mono pref depth ms (stepModule old (m, s)) m k ?_
        have : (stepModule old (m, s)).enterprise = appendAt old.enterprise k m := by
          simp [stepModule, hk, addOpt]
        rw [this]; exact appendAt_self _ _ _
      · refine build_compliance_mono pref depth ms (stepModule old (m, s)) m k ?_
        have : (stepModule old (m, s)).compliance = addAll old.compliance s.compliance m := by
          simp [stepModule]
        rw [this]; exact listed_addAll_self _ _ _ hk
    · exact ih _ h

/-! ### C18_monotone -/

/-- **C18_monotone**: building on top of an existing index keeps its identity, enterprise and
compliance entries and the cover of every OID it covered. -/
theorem C18_monotone (pref : κ → κ → Bool) (depth : κ → Nat) (ha : Admissible pref)
    (old : Idx κ μ) (ms : List (μ × Summary κ)) (x : μ) (k : κ) :
    (Listed old.identity x k → Listed (build pref depth old ms).identity x k) ∧
    (Listed old.enterprise x k → Listed (build pref depth old ms).enterprise x k) ∧
    (Listed old.compliance x k → Listed (build pref depth old ms).compliance x k) ∧
    (Covers pref old.oids x k → Covers pref (build pref depth old ms).oids x k) :=
  ⟨build_identity_mono pref depth ms old x k, build_enterprise_mono pref depth ms old x k,
   build_compliance_mono pref depth ms old x k, build_covers_mono pref depth ha ms old x k⟩

theorem C18_monotone_str (old : Idx Str Str) (ms : List (Str × Summary Str)) (x o : Str)
    (h : ∃ k mods, (k, mods) ∈ old.oids ∧ splitDot k <+: splitDot o ∧ x ∈ mods) :
    ∃ k mods, (k, mods) ∈ (buildStr old ms).oids ∧ splitDot k <+: splitDot o ∧ x ∈ mods := by
  obtain ⟨k, mods, h1, h2, h3⟩ := h
  obtain ⟨k', hk', mods', h4, h5⟩ :=
    build_covers_mono dotPrefix dotCount ⟨dotPrefix_refl, dotPrefix_trans⟩ ms old x o
      ⟨k, (dotPrefix_iff k o).mpr h2, mods, h1, h3⟩
  exact ⟨k', mods', h4, (dotPrefix_iff k' o).mp hk', h5⟩

/-! ### non-vacuity and the witness against the plain string prefix -/

def cs (s : String) : Str := s.toList

/-- a concrete two-module input with digit-sharing siblings 4 / 48 -/
def exampleMods : List (Str × Summary Str) :=
  [ (cs "A", { identity := some (cs "1.3.4"), enterprise := none, compliance := [],
               oids := [cs "1.3.4", cs "1.3.48", cs "1.3.4.1"] }),
    (cs "B", { identity := none, enterprise := none, compliance := [cs "1.3.4.2"],
               oids := [cs "1.3.4.2"] }) ]

/-- With the component-wise test the keys kept for `exampleMods` are 1.3.4, 1.3.48, 1.3.4.2. -/
example : (buildStr Idx.empty exampleMods).oids.map (·.1) = [cs "1.3.4", cs "1.3.48", cs "1.3.4.2"] := by
  decide +kernel

/-- component-wise cover, as a decidable check on a concrete index -/
def coveredBy (d : List (Str × List Str)) (m o : Str) : Bool :=
  d.any (fun e => decide (splitDot e.1 <+: splitDot o) && decide (m ∈ e.2))

/-- **Witness (F23)**: with Python's plain `startswith` as the prefix test — the code before the
fix — the index for one module defining 1.3.4 and 1.3.48 does not cover 1.3.48. -/
theorem C18_cover_false_for_string_prefix :
    coveredBy (build strPrefix dotCount Idx.empty
      [(cs "A", { identity := none, enterprise := none, compliance := [],
                  oids := [cs "1.3.4", cs "1.3.48"] })]).oids (cs "A") (cs "1.3.48") = false := by
  decide +kernel

/-- … and the repaired test does cover it. -/
example :
    coveredBy (buildStr Idx.empty
      [(cs "A", { identity := none, enterprise := none, compliance := [],
                  oids := [cs "1.3.4", cs "1.3.48"] })]).oids (cs "A") (cs "1.3.48") = true := by
  decide +kernel

end Pysmi.Index
