import Pysmi.Model.Pysnmp
import Pysmi.Generated.Pysnmp
import Pysmi.Generated.Text
/-!
# C04 — pysnmp output is valid Python that loads and agrees with the JSON backend

What a theorem can carry here are the pure steps around the template:

* `C04_sort_perm`: sorting the records by OID loses and duplicates nothing;
* `C04_sort_sorted`: the result is ordered by OID (lexicographic tuple order);
* `C04_sort_stable`: two records whose keys are in order keep their relative position — in particular records without an OID
  (type assignments, TEXTUAL-CONVENTIONs: key `()`) stay in the dependency order computed by the symbol table, so a derived
  class is never rendered before its base;
* `C04_imports_expand`: the import expansion keeps every symbol that is not an SMI macro name and replaces a macro name by
  its pysnmp classes, in order;
* `C04_exported_classes` / `C04_export_filter_complete`: on the template and generator regenerated from the source, every
  record class the property names - and every class the intermediate generator can emit for a symbol - is in the export filter.

That the rendered text is valid Python and defines what the records say is checked by executing every generated module (runtime,
partial).
-/
namespace Pysmi.Pysnmp

theorem le_trans' (a b c : Rec) (h1 : le a b = true) (h2 : le b c = true) : le a c = true := by
  simp only [le, decide_eq_true_eq] at *
  exact List.le_trans h1 h2

theorem le_total' (a b : Rec) : (le a b || le b a) = true := by
  simp only [le, Bool.or_eq_true, decide_eq_true_eq]
  exact List.le_total _ _

/-- **C04_sort_perm** -/
theorem C04_sort_perm (l : List Rec) : (sortByOid l).Perm l := List.mergeSort_perm l le

/-- **C04_sort_sorted** -/
theorem C04_sort_sorted (l : List Rec) : (sortByOid l).Pairwise (fun a b => key a ≤ key b) := by
  have := List.pairwise_mergeSort le_trans' le_total' l
  unfold sortByOid
  refine this.imp ?_
  intro a b h
  simpa [le] using h

/-- **C04_sort_stable** -/
theorem C04_sort_stable (l : List Rec) (a b : Rec) (hk : key a ≤ key b) (h : [a, b].Sublist l) :
    [a, b].Sublist (sortByOid l) :=
  List.pair_sublist_mergeSort le_trans' le_total' (by simpa [le] using hk) h

/-- records without an OID keep their order -/
theorem C04_types_keep_dependency_order (l : List Rec) (a b : Rec) (ha : a.oid = none) (hb : b.oid = none)
    (h : [a, b].Sublist l) : [a, b].Sublist (sortByOid l) := by
  apply C04_sort_stable l a b _ h
  simp [key, ha, hb]

/-- **C04_imports_expand** -/
theorem C04_imports_expand (tbl : List (String × List String)) (symbols : List String) (s : String) (hs : s ∈ symbols) :
    (tbl.lookup s = none → s ∈ expandImports tbl symbols) ∧
    (∀ cls, tbl.lookup s = some cls → ∀ c ∈ cls, c ∈ expandImports tbl symbols) := by
  constructor
  · intro hn
    exact List.mem_flatMap.mpr ⟨s, hs, by simp [hn]⟩
  · intro cls hc c hm
    exact List.mem_flatMap.mpr ⟨s, hs, by simp [hc, hm]⟩

example : sortByOid [⟨"T2", none⟩, ⟨"b", some [1, 3, 2]⟩, ⟨"T1", none⟩, ⟨"a", some [1, 3]⟩] =
    [⟨"T2", none⟩, ⟨"T1", none⟩, ⟨"a", some [1, 3]⟩, ⟨"b", some [1, 3, 2]⟩] := by
  simp [sortByOid, List.mergeSort, List.merge, le, key]
  decide

end Pysmi.Pysnmp

namespace Pysmi.Generated.Pysnmp

/-- the record classes the property requires to be exported -/
def requiredClasses : List String := ["moduleidentity", "objecttype", "objectidentity", "notificationtype", "objectgroup",
  "notificationgroup", "modulecompliance", "agentcapabilities", "textualconvention", "type"]

/-- **C04_exported_classes** -/
theorem C04_exported_classes : ∀ c ∈ requiredClasses, c ∈ exportedClasses := by decide +kernel

/-- **C04_export_filter_complete**: every class the intermediate generator writes into a symbol record is exported -/
theorem C04_export_filter_complete : ∀ c ∈ emittedClasses, c ∈ exportedClasses := by decide +kernel

/-- SMI macro names -> pysnmp classes, as pinned -/
theorem pin_smiObjects : smiObjects = [
  ("MODULE-IDENTITY", ["ModuleIdentity"]), ("OBJECT-TYPE", ["MibScalar", "MibTable", "MibTableRow", "MibTableColumn"]),
  ("NOTIFICATION-TYPE", ["NotificationType"]), ("TEXTUAL-CONVENTION", ["TextualConvention"]),
  ("MODULE-COMPLIANCE", ["ModuleCompliance"]), ("OBJECT-GROUP", ["ObjectGroup"]), ("NOTIFICATION-GROUP", ["NotificationGroup"]),
  ("AGENT-CAPABILITIES", ["AgentCapabilities"]), ("OBJECT-IDENTITY", ["ObjectIdentity"]), ("TRAP-TYPE", ["NotificationType"]),
  ("BITS", ["Bits"])] := rfl

end Pysmi.Generated.Pysnmp

namespace Pysmi.Generated.Text

/-- which record key a setter of the generated module must be given -/
def setterKey : String → List String
  | "setStatus" => ["status"]
  | "setMaxAccess" => ["maxaccess"]
  | "setUnits" => ["units"]
  | "setDescription" => ["description"]
  | "setReference" => ["reference"]
  | "setObjects" => ["objects", "modulecompliance"]
  | "setIndexNames" => ["indices", "augmention"]
  | "setRevisions" => ["revisions"]
  | "setLastUpdated" => ["lastupdated"]
  | "setOrganization" => ["organization"]
  | "setContactInfo" => ["contactinfo"]
  | "setProductRelease" => ["productrelease"]
  | _ => []

/-- **C04_setter_keys**: every `set…()` call the template writes is given the record key of that meaning (status to
setStatus, maxaccess to setMaxAccess, …; the compliance list only in the MODULE-COMPLIANCE block) - decided on the call
sites extracted from the template on every run -/
theorem C04_setter_keys :
    pysnmpSetterSites.all (fun s => (setterKey s.2.1).contains s.2.2 &&
      (s.2.2 != "modulecompliance" || s.1 == "modulecompliance")) = true := by decide

/-- every block whose records carry a status / an access writes it -/
theorem C04_status_written :
    (["objecttype|objectidentity", "objectgroup", "notificationtype", "notificationgroup", "agentcapabilities", "modulecompliance"].all
      (fun c => pysnmpSetterSites.contains (c, "setStatus", "status")) &&
     pysnmpSetterSites.contains ("objecttype|objectidentity", "setMaxAccess", "maxaccess")) = true := by decide

end Pysmi.Generated.Text
