import Pysmi.Model.Grammar
import Pysmi.Generated.Grammar
/-!
C17: the simulation check between the production lists regenerated from the source, evaluated by the
kernel (`decide +kernel`, no axioms).  Kept in its own file because it is the slow part (≈5 s each).
-/
namespace Pysmi.Generated.Grammar
open Pysmi.Grammar

theorem sim_smiV2_supportSmiV1Keywords : simAll nprods_smiV2 nprods_supportSmiV1Keywords = true := by decide +kernel
theorem sim_smiV2_commaAtTheEndOfImport : simAll nprods_smiV2 nprods_commaAtTheEndOfImport = true := by decide +kernel
theorem sim_smiV2_commaAtTheEndOfSequence : simAll nprods_smiV2 nprods_commaAtTheEndOfSequence = true := by decide +kernel
theorem sim_smiV2_mixOfCommasAndSpaces : simAll nprods_smiV2 nprods_mixOfCommasAndSpaces = true := by decide +kernel
theorem sim_smiV2_uppercaseIdentifier : simAll nprods_smiV2 nprods_uppercaseIdentifier = true := by decide +kernel
theorem sim_smiV2_lowcaseIdentifier : simAll nprods_smiV2 nprods_lowcaseIdentifier = true := by decide +kernel
theorem sim_smiV2_curlyBracesAroundEnterpriseInTrap : simAll nprods_smiV2 nprods_curlyBracesAroundEnterpriseInTrap = true := by decide +kernel
theorem sim_smiV2_noCells : simAll nprods_smiV2 nprods_noCells = true := by decide +kernel
theorem sim_smiV2_smiV1 : simAll nprods_smiV2 nprods_smiV1 = true := by decide +kernel
theorem sim_smiV1_smiV1Relaxed : simAll nprods_smiV1 nprods_smiV1Relaxed = true := by decide +kernel
theorem sim_supportSmiV1Keywords_smiV1Relaxed : simAll nprods_supportSmiV1Keywords nprods_smiV1Relaxed = true := by decide +kernel
theorem sim_commaAtTheEndOfImport_smiV1Relaxed : simAll nprods_commaAtTheEndOfImport nprods_smiV1Relaxed = true := by decide +kernel
theorem sim_commaAtTheEndOfSequence_smiV1Relaxed : simAll nprods_commaAtTheEndOfSequence nprods_smiV1Relaxed = true := by decide +kernel
theorem sim_mixOfCommasAndSpaces_smiV1Relaxed : simAll nprods_mixOfCommasAndSpaces nprods_smiV1Relaxed = true := by decide +kernel
theorem sim_uppercaseIdentifier_smiV1Relaxed : simAll nprods_uppercaseIdentifier nprods_smiV1Relaxed = true := by decide +kernel
theorem sim_lowcaseIdentifier_smiV1Relaxed : simAll nprods_lowcaseIdentifier nprods_smiV1Relaxed = true := by decide +kernel
theorem sim_curlyBracesAroundEnterpriseInTrap_smiV1Relaxed : simAll nprods_curlyBracesAroundEnterpriseInTrap nprods_smiV1Relaxed = true := by decide +kernel
theorem sim_noCells_smiV1Relaxed : simAll nprods_noCells nprods_smiV1Relaxed = true := by decide +kernel

/-- the relaxed grammar really is bigger: the strict one does not simulate it -/
theorem C17_relaxed_is_larger : simAll nprods_smiV1Relaxed nprods_smiV2 = false := by decide +kernel

end Pysmi.Generated.Grammar
