import Pysmi.Lemmas.Symtab
import Pysmi.Lemmas.Except
/-!
# C03 / C01 — the symbol table holds exactly the declared symbols, whatever their order

* `C03_order_is_perm`: whenever the symbol pass succeeds, `_symtable_order` (the list the JSON and
  pysnmp documents are emitted from) is a duplicate-free rearrangement of the declared symbol
  names: nothing dropped, nothing duplicated — for any number and mix of declarations.
* `C01_success_characterised`: the pass succeeds **iff** the declared names are distinct and every
  declaration is *derivable* (its parents are imported/base symbols, row types of some table of the
  module, or derivable declarations). The right-hand side does not mention the order of the
  declarations, hence
* `C01_order_irrelevant_success`: permuting the declarations changes neither success nor failure.
  (False for the code before commit dfb1bd2 — `C01_single_pass_witness`.)
-/
namespace Pysmi.Symtab

/-- all rows any declaration of the module adds -/
def allRows (decls : List Decl) : List Name := decls.flatMap (·.addsRows)

/-- a parent that exists from the start or is a row type of some table of the module -/
def Base (avail : Name → Bool) (decls : List Decl) (p : Name) : Prop := avail p = true ∨ p ∈ allRows decls

instance (avail : Name → Bool) (decls : List Decl) (p : Name) : Decidable (Base avail decls p) := by
  unfold Base; infer_instance

/-- a declared symbol that can eventually be registered: each of its parents is a base symbol or
itself a derivable declaration -/
inductive Derivable (avail : Name → Bool) (decls : List Decl) : Name → Prop
  | intro (d : Decl) : d ∈ decls →
      (∀ p ∈ d.parents, ¬ Base avail decls p → Derivable avail decls p) → Derivable avail decls d.name

/-- only table declarations add rows, and they wait for nothing that is not there from the start
(`MibTable`) -/
def WF (avail : Name → Bool) (decls : List Decl) : Prop :=
  ∀ d ∈ decls, d.addsRows ≠ [] → ∀ p ∈ d.parents, avail p = true

structure Inv (avail : Name → Bool) (all : List Decl) (done : List Decl) (s : St) : Prop where
  perm : (s.out ++ names s.postponed).Perm (names done)
  nodup : (s.out ++ names s.postponed).Nodup
  stable : ∀ d ∈ s.postponed, allParents avail s.out s.rows d.parents = false
  rows : s.rows = allRows done
  postSub : ∀ d ∈ s.postponed, d ∈ done
  just : ∀ n ∈ s.out, Derivable avail all n

theorem allParents_mono_rows (avail : Name → Bool) (out rows rows' : List Name) (ps : List Name)
    (h : allParents avail out rows ps = true) (hsub : ∀ x ∈ rows, x ∈ rows') :
    allParents avail out rows' ps = true := by
  unfold allParents at *
  rw [List.all_eq_true] at *
  intro p hp
  have := h p hp
  unfold parentExists at *
  simp only [Bool.or_eq_true, List.contains_iff_mem] at *
  rcases this with (h1 | h1) | h1
  · exact Or.inl (Or.inl h1)
  · exact Or.inl (Or.inr h1)
  · exact Or.inr (hsub p h1)

theorem derivable_of_allParents (avail : Name → Bool) (all : List Decl) (d : Decl) (hd : d ∈ all)
    (o rows : List Name) (ho : ∀ n ∈ o, Derivable avail all n) (hr : ∀ x ∈ rows, x ∈ allRows all)
    (h : allParents avail o rows d.parents = true) : Derivable avail all d.name := by
  refine .intro d hd ?_
  intro p hp hnb
  unfold allParents at h
  rw [List.all_eq_true] at h
  have := h p hp
  unfold parentExists at this
  simp only [Bool.or_eq_true, List.contains_iff_mem] at this
  rcases this with (h1 | h1) | h1
  · exact ho p h1
  · exact absurd (Or.inl h1) hnb
  · exact absurd (Or.inr (hr p h1)) hnb

theorem allRows_sub {done all : List Decl} (h : ∀ d ∈ done, d ∈ all) : ∀ x ∈ allRows done, x ∈ allRows all := by
  intro x hx
  simp only [allRows, List.mem_flatMap] at hx ⊢
  obtain ⟨d, hd, hx⟩ := hx
  exact ⟨d, h d hd, hx⟩

/-- one declaration preserves the invariant -/
theorem inv_regDecl (avail : Name → Bool) (all done : List Decl) (s s' : St) (d : Decl)
    (hwf : d.addsRows ≠ [] → ∀ p ∈ d.parents, avail p = true) (hdone : ∀ x ∈ done ++ [d], x ∈ all)
    (hinv : Inv avail all done s) (h : regDecl avail s d = .ok s') : Inv avail all (done ++ [d]) s' := by
  unfold regDecl at h
  simp only at h
  split at h
  · cases h
  · rename_i hdup
    have hdup' : d.name ∉ s.out ++ names s.postponed := by
      simp only [Bool.or_eq_true, List.contains_iff_mem, List.any_eq_true, beq_iff_eq, not_or, not_exists,
        not_and] at hdup
      intro hm
      rcases List.mem_append.mp hm with hm | hm
      · exact hdup.1 hm
      · simp only [names, List.mem_map] at hm
        obtain ⟨x, hx, hxe⟩ := hm
        exact hdup.2 x hx hxe
    have hrows : s.rows ++ d.addsRows = allRows (done ++ [d]) := by
      simp [allRows, hinv.rows]
    have hrsub : ∀ x ∈ s.rows ++ d.addsRows, x ∈ allRows all := by
      rw [hrows]; exact allRows_sub hdone
    split at h
    · -- registered at once, then the fixed-point loop
      rename_i hpar
      injection h with h; subst h
      have hbase : ∀ n ∈ s.out ++ [d.name], Derivable avail all n := by
        intro n hn
        rcases List.mem_append.mp hn with hn | hn
        · exact hinv.just n hn
        · simp at hn; subst hn
          exact derivable_of_allParents avail all d (hdone d (by simp)) s.out _ hinv.just hrsub hpar
      have hperm := fixpoint_perm avail (s.rows ++ d.addsRows) (s.postponed.length + 1) s.postponed (s.out ++ [d.name])
      have hperm2 : (s.out ++ [d.name] ++ names s.postponed).Perm (names (done ++ [d])) := by
        simp only [names, List.map_append, List.map_cons, List.map_nil]
        have := hinv.perm
        simp only [names] at this
        refine List.Perm.trans ?_ (List.Perm.append_right [d.name] this)
        simp only [List.append_assoc]
        exact List.Perm.append_left _ List.perm_append_comm
      refine ⟨hperm.trans hperm2, ?_, ?_, hrows, ?_, ?_⟩
      · rw [hperm.nodup_iff]
        have hnd : (s.out ++ names s.postponed ++ [d.name]).Nodup := by
          rw [List.nodup_append]
          refine ⟨hinv.nodup, by simp, ?_⟩
          intro a ha b hb
          simp at hb; subst hb
          intro hab; subst hab; exact hdup' ha
        refine (List.Perm.nodup_iff ?_).mp hnd
        simp only [List.append_assoc]
        exact List.Perm.append_left _ List.perm_append_comm
      · exact fixpoint_stable avail _ _ _ _ (by omega)
      · intro x hx
        exact List.mem_append_left _ (hinv.postSub x (fixpoint_post_sub avail _ _ _ _ x hx))
      · apply fixpoint_justified avail _ (Derivable avail all) _ _ _ hbase
        intro d' o hd' ho hp
        exact derivable_of_allParents avail all d' (hdone d' (List.mem_append_left _ (hinv.postSub d' hd'))) o _ ho hrsub hp
    · -- postponed
      rename_i hpar
      injection h with h; subst h
      -- a postponed declaration adds no rows (WF), so nothing else became registrable
      have hadd : d.addsRows = [] := by
        by_cases he : d.addsRows = []
        · exact he
        · exfalso
          apply hpar
          unfold allParents
          rw [List.all_eq_true]
          intro p hp
          simp [parentExists, hwf he p hp]
      refine ⟨?_, ?_, ?_, hrows, ?_, hinv.just⟩
      · simp only [names, List.map_append, List.map_cons, List.map_nil, ← List.append_assoc]
        exact List.Perm.append_right _ (by simpa [names] using hinv.perm)
      · simp only [names, List.map_append, List.map_cons, List.map_nil, ← List.append_assoc]
        rw [List.nodup_append]
        refine ⟨by simpa [names] using hinv.nodup, by simp, ?_⟩
        intro a ha b hb
        simp at hb; subst hb
        intro hab; subst hab; exact hdup' (by simpa [names] using ha)
      · intro x hx
        simp only [hadd, List.append_nil]
        rcases List.mem_append.mp hx with hx | hx
        · exact hinv.stable x hx
        · simp at hx; subst hx
          simpa [hadd] using hpar
      · intro x hx
        rcases List.mem_append.mp hx with hx | hx
        · exact List.mem_append_left _ (hinv.postSub x hx)
        · exact List.mem_append_right _ hx

theorem inv_regAll (avail : Name → Bool) (all : List Decl) (hwf : WF avail all) (rest done : List Decl) (s s' : St)
    (hall : all = done ++ rest) (hinv : Inv avail all done s) (h : regAll avail rest s = .ok s') :
    Inv avail all all s' := by
  induction rest generalizing done s with
  | nil =>
    simp only [regAll, Except.ok.injEq] at h
    subst h
    simpa [hall] using hinv
  | cons d rest ih =>
    unfold regAll at h
    split at h
    · cases h
    · rename_i s1 hs1
      have hmem : ∀ x ∈ done ++ [d], x ∈ all := by
        intro x hx; rw [hall]
        rcases List.mem_append.mp hx with hx | hx
        · exact List.mem_append_left _ hx
        · simp at hx; subst hx; simp
      exact ih (done ++ [d]) s1 (by simp [hall]) (inv_regDecl avail all done s s1 d (hwf d (hmem d (by simp))) hmem hinv hs1) h

theorem inv_init (avail : Name → Bool) (all : List Decl) : Inv avail all [] {} :=
  ⟨by simp [names], by simp [names], by simp, by simp [allRows], by simp, by simp⟩

/-- **C03_order_is_perm**: on success the emission order is a duplicate-free permutation of the
declared names. -/
theorem C03_order_is_perm (avail : Name → Bool) (decls : List Decl) (hwf : WF avail decls) (order : List Name)
    (h : run avail decls = .ok order) : order.Perm (names decls) ∧ order.Nodup := by
  unfold run at h
  split at h
  · cases h
  · rename_i s hs
    split at h
    · rename_i hemp
      injection h with h; subst h
      have hinv := inv_regAll avail decls hwf decls [] {} s (by simp) (inv_init avail decls) hs
      have he : s.postponed = [] := by simpa using hemp
      have hp := hinv.perm
      have hn := hinv.nodup
      simp only [he, names, List.map_nil, List.append_nil] at hp hn
      exact ⟨hp, hn⟩
    · cases h

/-- two declarations of a duplicate-free list with the same name are the same declaration -/
theorem decl_unique (decls : List Decl) (hn : (names decls).Nodup) (d d' : Decl) (hd : d ∈ decls) (hd' : d' ∈ decls)
    (he : d.name = d'.name) : d = d' := by
  induction decls with
  | nil => cases hd
  | cons x xs ih =>
    simp only [names, List.map_cons, List.nodup_cons, List.mem_map, not_exists, not_and] at hn
    rcases List.mem_cons.mp hd with h1 | h1 <;> rcases List.mem_cons.mp hd' with h2 | h2
    · rw [h1, h2]
    · subst h1; exact absurd he.symm (hn.1 d' h2)
    · subst h2; exact absurd he (hn.1 d h1)
    · exact ih (by simpa [names] using hn.2) h1 h2

/-- no duplicate ⇒ `regAll` never raises -/
theorem regAll_ok (avail : Name → Bool) (all : List Decl) (hwf : WF avail all) (hnd : (names all).Nodup)
    (rest done : List Decl) (s : St) (hall : all = done ++ rest) (hinv : Inv avail all done s) :
    ∃ s', regAll avail rest s = .ok s' := by
  induction rest generalizing done s with
  | nil => exact ⟨s, rfl⟩
  | cons d rest ih =>
    have hmem : ∀ x ∈ done ++ [d], x ∈ all := by
      intro x hx; rw [hall]
      rcases List.mem_append.mp hx with hx | hx
      · exact List.mem_append_left _ hx
      · simp at hx; subst hx; simp
    have hfresh : d.name ∉ s.out ++ names s.postponed := by
      intro hm
      have : d.name ∈ names done := hinv.perm.subset hm
      rw [hall] at hnd
      simp only [names, List.map_append, List.map_cons] at hnd this
      rw [List.nodup_append] at hnd
      exact hnd.2.2 _ this _ (by simp) rfl
    have hok : ∃ s1, regDecl avail s d = .ok s1 := by
      unfold regDecl
      simp only
      have : (s.out.contains d.name || s.postponed.any (·.name == d.name)) = false := by
        rw [Bool.or_eq_false_iff]
        constructor
        · simpa using fun h => hfresh (List.mem_append_left _ h)
        · rw [List.any_eq_false]
          intro x hx hxe
          exact hfresh (List.mem_append_right _ (by simp only [names, List.mem_map]; exact ⟨x, hx, by simpa using hxe⟩))
      simp only [this, Bool.false_eq_true, if_false]
      split
      · exact ⟨_, rfl⟩
      · exact ⟨_, rfl⟩
    obtain ⟨s1, hs1⟩ := hok
    obtain ⟨s', hs'⟩ := ih (done ++ [d]) s1 (by simp [hall])
      (inv_regDecl avail all done s s1 d (hwf d (hmem d (by simp))) hmem hinv hs1)
    exact ⟨s', by simp [regAll, hs1, hs']⟩

/-- **C01_success_characterised**: the symbol pass succeeds exactly when the declared names are
distinct and every declaration is derivable — a condition that does not mention their order. -/
theorem C01_success_characterised (avail : Name → Bool) (decls : List Decl) (hwf : WF avail decls) :
    (∃ order, run avail decls = .ok order) ↔
      ((names decls).Nodup ∧ ∀ d ∈ decls, Derivable avail decls d.name) := by
  constructor
  · rintro ⟨order, h⟩
    obtain ⟨hp, hn⟩ := C03_order_is_perm avail decls hwf order h
    refine ⟨hp.nodup_iff.mp hn, ?_⟩
    unfold run at h
    split at h
    · cases h
    · rename_i s hs
      split at h
      · injection h with h; subst h
        have hinv := inv_regAll avail decls hwf decls [] {} s (by simp) (inv_init avail decls) hs
        intro d hd
        exact hinv.just d.name (hp.symm.subset (by simp only [names, List.mem_map]; exact ⟨d, hd, rfl⟩))
      · cases h
  · rintro ⟨hnd, hder⟩
    obtain ⟨s, hs⟩ := regAll_ok avail decls hwf hnd decls [] {} (by simp) (inv_init avail decls)
    have hinv := inv_regAll avail decls hwf decls [] {} s (by simp) (inv_init avail decls) hs
    -- every derivable declared name has been registered
    have hreg : ∀ n, Derivable avail decls n → n ∈ s.out := by
      intro n hn
      induction hn with
      | intro d hd _ ih =>
        have hpar : allParents avail s.out s.rows d.parents = true := by
          unfold allParents
          rw [List.all_eq_true]
          intro p hp
          unfold parentExists
          simp only [Bool.or_eq_true, List.contains_iff_mem]
          by_cases hb : Base avail decls p
          · rcases hb with h1 | h1
            · exact Or.inl (Or.inr h1)
            · exact Or.inr (by rw [hinv.rows]; exact h1)
          · exact Or.inl (Or.inl (ih p hp hb))
        have hmem : d.name ∈ s.out ++ names s.postponed :=
          hinv.perm.symm.subset (by simp only [names, List.mem_map]; exact ⟨d, hd, rfl⟩)
        rcases List.mem_append.mp hmem with h1 | h1
        · exact h1
        · simp only [names, List.mem_map] at h1
          obtain ⟨d2, hd2, he⟩ := h1
          have : d2 = d := decl_unique decls hnd d2 d (hinv.postSub d2 hd2) hd he
          subst this
          have := hinv.stable d2 hd2
          rw [hpar] at this; cases this
    have hemp : s.postponed = [] := by
      cases hpost : s.postponed with
      | nil => rfl
      | cons d2 rest =>
        exfalso
        have hd2 : d2 ∈ s.postponed := by simp [hpost]
        have hin := hreg d2.name (hder d2 (hinv.postSub d2 hd2))
        have hnd2 := hinv.nodup
        rw [List.nodup_append] at hnd2
        exact hnd2.2.2 _ hin _ (by simp only [names, List.mem_map]; exact ⟨d2, hd2, rfl⟩) rfl
    exact ⟨s.out, by simp [run, hs, hemp]⟩

theorem derivable_congr (avail : Name → Bool) (a b : List Decl) (hab : ∀ d, d ∈ a ↔ d ∈ b) (n : Name)
    (h : Derivable avail a n) : Derivable avail b n := by
  induction h with
  | intro d hd _ ih =>
    refine .intro d ((hab d).mp hd) ?_
    intro p hp hnb
    apply ih p hp
    intro hb
    apply hnb
    rcases hb with h1 | h1
    · exact Or.inl h1
    · right
      simp only [allRows, List.mem_flatMap] at h1 ⊢
      obtain ⟨x, hx, hpx⟩ := h1
      exact ⟨x, (hab x).mp hx, hpx⟩

/-- **C01_order_irrelevant_success**: compiling the same declarations in any other order succeeds
exactly when the original order does. -/
theorem C01_order_irrelevant_success (avail : Name → Bool) (decls decls' : List Decl) (hp : decls.Perm decls')
    (hwf : WF avail decls) :
    (∃ order, run avail decls = .ok order) ↔ (∃ order, run avail decls' = .ok order) := by
  have hwf' : WF avail decls' := fun d hd => hwf d (hp.symm.subset hd)
  rw [C01_success_characterised avail decls hwf, C01_success_characterised avail decls' hwf']
  have hmem : ∀ d, d ∈ decls ↔ d ∈ decls' := fun d => hp.mem_iff
  constructor
  · rintro ⟨h1, h2⟩
    exact ⟨(List.Perm.nodup_iff (hp.map _)).mp h1,
      fun d hd => derivable_congr avail decls decls' hmem _ (h2 d ((hmem d).mpr hd))⟩
  · rintro ⟨h1, h2⟩
    exact ⟨(List.Perm.nodup_iff (hp.map _)).mpr h1,
      fun d hd => derivable_congr avail decls' decls (fun d => (hmem d).symm) _ (h2 d ((hmem d).mp hd))⟩

/-! ### the code before the fix: a single pass per registration -/

def regDeclOld (avail : Name → Bool) (s : St) (d : Decl) : Except Err St :=
  let rows := s.rows ++ d.addsRows
  if s.out.contains d.name || s.postponed.any (·.name == d.name) then .error (.duplicate d.name)
  else if allParents avail s.out rows d.parents then
    let r := pass avail rows s.postponed (s.out ++ [d.name])
    .ok { out := r.1, postponed := r.2.1, rows := rows }
  else .ok { s with postponed := s.postponed ++ [d], rows := rows }

def runOld (avail : Name → Bool) (decls : List Decl) : Except Err (List Name) :=
  match decls.foldlM (regDeclOld avail) {} with
  | .error e => .error e
  | .ok s => if s.postponed.isEmpty then .ok s.out else .error (.unknownParents (s.postponed.map (·.name)))

/-- **Witness (F9)**: `A ::= B`, `B ::= C`, `C ::= INTEGER` (names 1, 2, 3; 0 = a base type) fails
with the single-pass code and succeeds when reversed — and both orders succeed now. -/
theorem C01_single_pass_witness :
    runOld (· == 0) [⟨1, [2], []⟩, ⟨2, [3], []⟩, ⟨3, [0], []⟩] = .error (.unknownParents [1]) ∧
    runOld (· == 0) [⟨3, [0], []⟩, ⟨2, [3], []⟩, ⟨1, [2], []⟩] = .ok [3, 2, 1] ∧
    run (· == 0) [⟨1, [2], []⟩, ⟨2, [3], []⟩, ⟨3, [0], []⟩] = .ok [3, 2, 1] := by decide

/-- non-vacuity: a table, its row (forward reference to the row type) and an augmenting row -/
example : run (· == 0) [⟨10, [20], []⟩, ⟨11, [20, 10], []⟩, ⟨12, [0], [20]⟩] = .ok [12, 10, 11] := by decide
example : WF (· == 0) [⟨10, [20], []⟩, ⟨11, [20, 10], []⟩, ⟨12, [0], [20]⟩] := by
  intro d hd hr p hp
  simp at hd
  rcases hd with rfl | rfl | rfl <;> simp_all

end Pysmi.Symtab
