import Pysmi.Generated.Records
/-!
# C01 — the symbol pass reads the clause positions the parser writes

Same tables as `Props/C03Records.lean` (regenerated from the Python AST on every run), for `SymtableCodeGen`: the OID value
and the name a symbol is registered with come from the OID-value clause and the identifier of the declaration.
-/
namespace Pysmi.Records
open Pysmi.Generated.Records

def sfeeds (tag key : String) : Option String :=
  match symtableClauses.find? (·.1 == tag) with
  | none => none
  | some (_, _, pos, unpack, keys) =>
    match keys.find? (·.1 == key) with
    | some (_, [v]) => (unpack.idxOf? v).bind (pos[·]?)
    | _ => none

/-- both passes unpack as many names as the parser puts values, for every declaration kind -/
theorem C01_symtable_arity :
    (symtableClauses.all (fun c => c.2.2.1.length == c.2.2.2.1.length) &&
     symtableClauses.map (·.1) == clauses.map (·.1)) = true := by decide

/-- **C01_symtable_fields**: the OID value and the name a symbol is registered with come from the OID-value clause and the
identifier of the declaration; the SYNTAX and DEFVAL kept for later resolution from those clauses -/
theorem C01_symtable_fields :
    [("agentCapabilitiesClause", "oid", "objectIdentifier"), ("moduleComplianceClause", "oid", "objectIdentifier"),
     ("moduleIdentityClause", "oid", "objectIdentifier"), ("notificationGroupClause", "oid", "objectIdentifier"),
     ("notificationTypeClause", "oid", "NotificationName"), ("objectGroupClause", "oid", "objectIdentifier"),
     ("objectIdentityClause", "oid", "objectIdentifier"), ("objectTypeClause", "oid", "ObjectName"),
     ("valueDeclaration", "oid", "objectIdentifier"),
     ("objectTypeClause", "syntax", "Syntax"), ("objectTypeClause", "defval", "DefValPart"),
     ("typeDeclaration", "syntax", "typeDeclarationRHS"),
     ("objectTypeClause", "origName", "LOWERCASE_IDENTIFIER"), ("valueDeclaration", "origName", "fuzzy_lowercase_identifier"),
     ("typeDeclaration", "origName", "typeName"), ("notificationTypeClause", "origName", "fuzzy_lowercase_identifier"),
     ("trapTypeClause", "origName", "fuzzy_lowercase_identifier")
    ].all (fun t => sfeeds t.1 t.2.1 == some t.2.2) = true := by decide

end Pysmi.Records
