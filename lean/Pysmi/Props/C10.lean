import Pysmi.Lemmas.Compile
/-!
# C10 — up-to-date modules are not regenerated; rebuild, noDeps, stubs act as documented
(compile-level half; the file searchers' own decision is in `Props/C10Searcher.lean`)

For every list of searchers and every assignment of answers:
* `C10_searchLoop_fresh` / `C10_searchLoop_calls`: searchers are asked in the order added, up to
  and including the first that reports an up-to-date copy — every other answer (absent,
  package error, plain return) moves on — and none is asked after it;
* `C10_needStep`: a parsed module is dropped from code generation and reported `untouched`
  exactly when some searcher reports it fresh or `noDeps` excludes it;
* `C10_gen_calls`: the code generator is called exactly once per module that remains, in order.
-/
namespace Pysmi.Compile
open Pysmi

/-- position of the first searcher reporting not-modified (= length if none) -/
def firstFresh (n : Name) (mtime : Int) (rebuild : Bool) (srs : List (Name → Int → Bool → SearchAns)) : Nat :=
  srs.findIdx (fun sr => sr n mtime rebuild == .notModified)

theorem C10_searchLoop_fresh (n : Name) (mtime : Int) (rebuild : Bool)
    (srs : List (Name → Int → Bool → SearchAns)) (i : Nat) :
    (searchLoop n mtime rebuild srs i).1 = true ↔ ∃ sr ∈ srs, sr n mtime rebuild = .notModified := by
  induction srs generalizing i with
  | nil => simp [searchLoop]
  | cons sr rest ih =>
    unfold searchLoop
    split
    · rename_i h; simp [h]
    · rename_i h
      simp only [ih, List.mem_cons, exists_eq_or_imp]
      constructor
      · intro hh; exact Or.inr hh
      · rintro (hh | hh)
        · exact absurd hh (by intro h'; exact h h')
        · exact hh

theorem C10_searchLoop_calls (n : Name) (mtime : Int) (rebuild : Bool)
    (srs : List (Name → Int → Bool → SearchAns)) (i : Nat) :
    (searchLoop n mtime rebuild srs i).2 =
      (List.range (min (firstFresh n mtime rebuild srs + 1) srs.length)).map
        (fun j => Call.search (i + j) n mtime rebuild) := by
  induction srs generalizing i with
  | nil => simp [searchLoop, firstFresh]
  | cons sr rest ih =>
    unfold searchLoop firstFresh
    rw [List.findIdx_cons]
    split
    · rename_i h
      simp [h, List.range_succ]
    · rename_i h
      have hne : (sr n mtime rebuild == SearchAns.notModified) = false := by
        cases hh : sr n mtime rebuild <;> simp_all
      simp only [hne, cond_false, List.length_cons, Nat.add_min_add_right]
      rw [List.range_succ_eq_map, List.map_cons, List.map_map, ih (i + 1)]
      simp only [Nat.add_zero, firstFresh, List.cons.injEq, true_and]
      apply List.map_congr_left
      intro j _
      simp only [Function.comp]
      congr 1; omega

/-- **C10_needStep**: what phase 2 does to one parsed module. -/
theorem C10_needStep (c : Cfg) (o : Opts) (s : St) (n alias : Name) (mtime : Int) (tree : Nat)
    (hp : s.parsed.get? n = some (alias, mtime, tree)) :
    let fresh := ∃ sr ∈ c.searchers, sr n mtime o.rebuild = .notModified
    let excluded := o.noDeps = true ∧ n ∉ s.canonical
    (needStep c o s n).trace = s.trace ++ (searchLoop n mtime o.rebuild c.searchers 0).2 ∧
    ((fresh ∨ excluded) →
        (needStep c o s n).parsed = s.parsed.del n ∧
        (needStep c o s n).processed.get? n = some { st := .untouched }) ∧
    (¬ (fresh ∨ excluded) →
        (needStep c o s n).parsed = s.parsed ∧ (needStep c o s n).processed = s.processed) := by
  intro fresh excluded
  have hf := C10_searchLoop_fresh n mtime o.rebuild c.searchers 0
  unfold needStep
  simp only [hp]
  by_cases h1 : (searchLoop n mtime o.rebuild c.searchers 0).1 = true
  · have : fresh := hf.mp h1
    simp only [h1, if_true]
    exact ⟨trivial, fun _ => ⟨trivial, AList.get?_set_eq _ _ _⟩, fun h => absurd (Or.inl this) h⟩
  · have hnf : ¬ fresh := fun h => h1 (hf.mpr h)
    simp only [h1, Bool.false_eq_true, if_false]
    by_cases h2 : o.noDeps = true ∧ n ∉ s.canonical
    · simp only [h2, and_self, if_true, not_false_eq_true]
      exact ⟨trivial, fun _ => ⟨trivial, AList.get?_set_eq _ _ _⟩, fun h => absurd (Or.inr h2) h⟩
    · simp only [h2, if_false]
      exact ⟨trivial, fun h => by rcases h with h | h; exact absurd h hnf; exact absurd h h2, fun _ => ⟨trivial, trivial⟩⟩

/-- the generator calls phase 3 issues for a `parsed` dict -/
def genCalls (o : Opts) (l : AList Name Rec) : List Call := l.map (fun e => Call.gen e.2.2.2 o.genTexts)

theorem genStep_head (c : Cfg) (o : Opts) (s : St) (n : Name) (r : Rec) (l : AList Name Rec)
    (hb : s.parsed = (n, r) :: l) :
    (genStep c o s n).parsed = l ∧ (genStep c o s n).trace = s.trace ++ [Call.gen r.2.2 o.genTexts] := by
  obtain ⟨alias, mtime, tree⟩ := r
  have hg : s.parsed.get? n = some (alias, mtime, tree) := by simp [hb, AList.get?]
  have hd : s.parsed.del n = l := by simp [hb, AList.del]
  unfold genStep
  simp only [hg]
  cases c.gen tree o.genTexts <;> simp [St.log, hd]

/-- **C10_gen_calls**: the code generator is called exactly once for every module still in
`parsed` after phase 2 (and for nothing else), in order. -/
theorem C10_gen_calls (c : Cfg) (o : Opts) (s : St) :
    (phaseGen c o s).trace = s.trace ++ genCalls o s.parsed := by
  unfold phaseGen
  have : ∀ (l : AList Name Rec) (s : St), s.parsed = l →
      (l.keys.foldl (genStep c o) s).trace = s.trace ++ genCalls o l := by
    intro l
    induction l with
    | nil => intro s _; simp [genCalls, AList.keys]
    | cons e l ih =>
      intro s hb
      obtain ⟨n, r⟩ := e
      obtain ⟨h1, h2⟩ := genStep_head c o s n r l hb
      simp only [AList.keys_cons, List.foldl_cons]
      rw [ih _ h1, h2, List.append_assoc]; rfl
  exact this _ _ rfl

/-! ### non-vacuity -/
example : (searchLoop 7 10 false [fun _ _ _ => .notFound, fun _ _ _ => .error, fun _ _ _ => .notModified,
    fun _ _ _ => .notModified] 0) =
    (true, [.search 0 7 10 false, .search 1 7 10 false, .search 2 7 10 false]) := by decide

end Pysmi.Compile
