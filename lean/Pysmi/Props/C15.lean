import Pysmi.Model.PyStr
import Pysmi.Lemmas.Except
/-!
# C15 — descriptive texts reach the output intact and only when requested

* `C15_gating`: a gated text (DESCRIPTION, REFERENCE, ORGANIZATION, CONTACT-INFO) is emitted iff text generation is on
  and the text is non-empty; never when it is off.
* `C15_normalise_idempotent`, `C15_normalise_only_whitespace`: the default filter `re.sub(r'\s+', ' ', text)` (Python's
  white-space class regenerated from CPython) is idempotent and changes nothing but white space.
* `C15_py_block`: a text written into the pysnmp module as `"""\⏎` + `pyblock (wordwrap text)` + `⏎"""` evaluates, through
  the tokenizer's newline normalisation and Python's escape rules, to the text up to white space — for every text
  (backslashes, apostrophes, quotes, line breaks, NUL, any code point) and every wrapping function that only changes
  white space (checked against Jinja's `wordwrap` for every generated string).
* `C15_py_line`: a one-line site `"` + `pyline text` + `"` evaluates to exactly the text.
* `C15_py_block_needs_escaping`: the pinned behaviour (no escaping) turned `C:\new` into a line break and made `\x` a
  SyntaxError.
* `pin_pysnmpTextSites`: every place where the template writes a free-form text uses one of the two shapes with its filter.
-/
namespace Pysmi.PyStr

theorem contains_false {l : Str} {c : Char} (h : c ∉ l) : l.contains c = false := by
  cases hc : l.contains c
  · rfl
  · exact absurd (List.contains_iff_mem.mp hc) h

theorem isWs_space : isWs ' ' = true := by decide +kernel

theorem norm_norm : ∀ (s : Str) (b : Bool), norm b (norm b s) = norm b s := by
  intro s
  induction s with
  | nil => intro b; rfl
  | cons c cs ih =>
    intro b
    by_cases hc : isWs c = true
    · cases b
      · simp only [norm, hc, if_true, Bool.false_eq_true, if_false, isWs_space]
        rw [ih true]
      · simp only [norm, hc, if_true]
        exact ih true
    · have hc' : isWs c = false := by simpa using hc
      simp only [norm, hc', Bool.false_eq_true, if_false]
      rw [ih false]

/-- **C15_normalise_idempotent** -/
theorem C15_normalise_idempotent (s : Str) : normalize (normalize s) = normalize s := norm_norm s false

theorem dropWs_norm : ∀ (s : Str) (b : Bool), dropWs (norm b s) = dropWs s := by
  intro s
  induction s with
  | nil => intro b; rfl
  | cons c cs ih =>
    intro b
    by_cases hc : isWs c = true
    · cases b
      · simp only [norm, hc, if_true, Bool.false_eq_true, if_false]
        simp only [dropWs, List.filter_cons, isWs_space, hc, Bool.not_true, Bool.false_eq_true, if_false]
        exact ih true
      · simp only [norm, hc, if_true]
        simp only [dropWs, List.filter_cons, hc, Bool.not_true, Bool.false_eq_true, if_false]
        exact ih true
    · have hc' : isWs c = false := by simpa using hc
      simp only [norm, hc', Bool.false_eq_true, if_false]
      simp only [dropWs, List.filter_cons, hc', Bool.not_false, if_true]
      have := ih false
      simp only [dropWs] at this
      rw [this]

/-- **C15_normalise_only_whitespace**: the default filter changes nothing but white space -/
theorem C15_normalise_only_whitespace (s : Str) : dropWs (normalize s) = dropWs s := dropWs_norm s false

/-- **C15_gating** -/
theorem C15_gating (genTexts : Bool) (text : Option Str) :
    (genTexts = false → gated genTexts text = none) ∧
    (∀ t, gated genTexts text = some t ↔ (genTexts = true ∧ text = some t ∧ t ≠ [])) := by
  constructor
  · intro h; subst h; cases text <;> simp [gated]
  · intro t
    cases text with
    | none => simp [gated]
    | some u =>
      cases genTexts <;> cases u <;> simp [gated]
      · intro h; subst h; simp

/-! ### literals -/

theorem map_ok {α β : Type} {ε : Type} (f : α → β) (x : α) : (Except.ok x : Except ε α).map f = .ok (f x) := rfl

theorem pyblock_cons (c : Char) (cs : Str) : pyblock (c :: cs) =
    (if c = '\\' then ['\\', '\\'] else if c = '"' then ['\\', '"'] else if c = nul then ['\\', 'x', '0', '0'] else [c]) ++ pyblock cs := by
  simp [pyblock]

theorem pyline_cons (c : Char) (cs : Str) : pyline (c :: cs) =
    (if c = '\\' then ['\\', '\\'] else if c = '"' then ['\\', '"'] else if c = nul then ['\\', 'x', '0', '0']
      else if c = '\n' then ['\\', 'n'] else if c = '\r' then ['\\', 'r'] else [c]) ++ pyline cs := by
  simp [pyline]

theorem takeHex_00 (rest : Str) : takeHex 2 ('0' :: '0' :: rest) 0 = some (0, rest) := by
  simp [takeHex, hexVal]

theorem evalBody_pyblock : ∀ (s : Str) (fuel : Nat), (pyblock s).length < fuel → evalBody fuel (pyblock s) = .ok s := by
  intro s
  induction s with
  | nil => intro fuel h; cases fuel <;> simp [pyblock, evalBody] at *
  | cons c cs ih =>
    intro fuel h
    rw [pyblock_cons] at h ⊢
    cases fuel with
    | zero => omega
    | succ fuel =>
    by_cases h1 : c = '\\'
    · subst h1
      simp only [if_true, List.cons_append, List.nil_append, List.length_cons] at h ⊢
      rw [evalBody, ih fuel (by omega)]; rfl
    · by_cases h2 : c = '"'
      · subst h2
        simp only [h1, if_false, if_true, List.cons_append, List.nil_append, List.length_cons] at h ⊢
        rw [evalBody, ih fuel (by omega)]; rfl
      · by_cases h3 : c = nul
        · subst h3
          simp only [h1, h2, if_false, if_true, List.cons_append, List.nil_append, List.length_cons] at h ⊢
          rw [evalBody, takeHex_00]
          simp only []
          rw [ih fuel (by omega)]; rfl
        · simp only [h1, h2, h3, if_false, List.cons_append, List.nil_append, List.length_cons] at h ⊢
          rw [evalBody]
          · rw [ih fuel (by omega)]; rfl
          · intro hr; exact h1 hr

theorem evalBody_pyline : ∀ (s : Str) (fuel : Nat), (pyline s).length < fuel → evalBody fuel (pyline s) = .ok s := by
  intro s
  induction s with
  | nil => intro fuel h; cases fuel <;> simp [pyline, evalBody] at *
  | cons c cs ih =>
    intro fuel h
    rw [pyline_cons] at h ⊢
    cases fuel with
    | zero => omega
    | succ fuel =>
    by_cases h1 : c = '\\'
    · subst h1
      simp only [if_true, List.cons_append, List.nil_append, List.length_cons] at h ⊢
      rw [evalBody, ih fuel (by omega)]; rfl
    · by_cases h2 : c = '"'
      · subst h2
        simp only [h1, if_false, if_true, List.cons_append, List.nil_append, List.length_cons] at h ⊢
        rw [evalBody, ih fuel (by omega)]; rfl
      · by_cases h3 : c = nul
        · subst h3
          simp only [h1, h2, if_false, if_true, List.cons_append, List.nil_append, List.length_cons] at h ⊢
          rw [evalBody, takeHex_00]
          simp only []
          rw [ih fuel (by omega)]; rfl
        · by_cases h4 : c = '\n'
          · subst h4
            simp only [h1, h2, h3, if_false, if_true, List.cons_append, List.nil_append, List.length_cons] at h ⊢
            rw [evalBody, ih fuel (by omega)]; rfl
          · by_cases h5 : c = '\r'
            · subst h5
              simp only [h1, h2, h3, h4, if_false, if_true, List.cons_append, List.nil_append, List.length_cons] at h ⊢
              rw [evalBody, ih fuel (by omega)]; rfl
            · simp only [h1, h2, h3, h4, h5, if_false, List.cons_append, List.nil_append, List.length_cons] at h ⊢
              rw [evalBody]
              · rw [ih fuel (by omega)]; rfl
              · intro hr; exact h1 hr


/-! facts about the escaped texts: a scanner state machine over the per-character images -/

theorem nul_ne : nul ≠ '\\' ∧ nul ≠ '"' ∧ nul ≠ '\n' ∧ nul ≠ '\r' ∧ nul ≠ 'x' ∧ nul ≠ '0' ∧ nul ≠ 'n' ∧ nul ≠ 'r' := by decide

theorem pyblock_clean : ∀ (s : Str), nul ∉ pyblock s ∧ hasBareQuote false (pyblock s) = false := by
  intro s
  induction s with
  | nil => simp [pyblock, hasBareQuote]
  | cons c cs ih =>
    rw [pyblock_cons]
    obtain ⟨n1, n2, n3, n4, n5, n6, n7, n8⟩ := nul_ne
    by_cases h1 : c = '\\'
    · subst h1
      simp only [if_true, List.cons_append, List.nil_append, List.mem_cons, hasBareQuote]
      simp [ih.1, ih.2, n1]
    · by_cases h2 : c = '"'
      · subst h2
        simp only [h1, if_false, if_true, List.cons_append, List.nil_append, List.mem_cons, hasBareQuote]
        simp [ih.1, ih.2, n1, n2]
      · by_cases h3 : c = nul
        · subst h3
          simp only [h1, h2, if_false, if_true, List.cons_append, List.nil_append, List.mem_cons, hasBareQuote]
          simp [ih.1, ih.2, n1, n5, n6]
        · simp only [h1, h2, h3, if_false, List.cons_append, List.nil_append, List.mem_cons, hasBareQuote]
          have : ¬ nul = c := fun h => h3 h.symm
          simp [ih.1, ih.2, this, h1, h2]

theorem pyline_clean : ∀ (s : Str), nul ∉ pyline s ∧ '\n' ∉ pyline s ∧
    '\r' ∉ pyline s ∧ hasBareQuote false (pyline s) = false ∧ escAtEnd false (pyline s) = false := by
  intro s
  induction s with
  | nil => simp [pyline, hasBareQuote, escAtEnd]
  | cons c cs ih =>
    rw [pyline_cons]
    obtain ⟨n1, n2, n3, n4, n5, n6, n7, n8⟩ := nul_ne
    obtain ⟨i1, i2, i3, i4, i5⟩ := ih
    by_cases h1 : c = '\\'
    · subst h1
      simp only [if_true, List.cons_append, List.nil_append, List.mem_cons, hasBareQuote, escAtEnd]
      simp [i1, i2, i3, i4, i5, n1]
    · by_cases h2 : c = '"'
      · subst h2
        simp only [h1, if_false, if_true, List.cons_append, List.nil_append, List.mem_cons, hasBareQuote, escAtEnd]
        simp [i1, i2, i3, i4, i5, n1, n2]
      · by_cases h3 : c = nul
        · subst h3
          simp only [h1, h2, if_false, if_true, List.cons_append, List.nil_append, List.mem_cons, hasBareQuote, escAtEnd]
          simp [i1, i2, i3, i4, i5, n1, n5, n6]
        · by_cases h4 : c = '\n'
          · subst h4
            simp only [h1, h2, h3, if_false, if_true, List.cons_append, List.nil_append, List.mem_cons, hasBareQuote, escAtEnd]
            simp [i1, i2, i3, i4, i5, n1, n7]
          · by_cases h5 : c = '\r'
            · subst h5
              simp only [h1, h2, h3, h4, if_false, if_true, List.cons_append, List.nil_append, List.mem_cons, hasBareQuote, escAtEnd]
              simp [i1, i2, i3, i4, i5, n1, n8]
            · simp only [h1, h2, h3, h4, h5, if_false, List.cons_append, List.nil_append, List.mem_cons, hasBareQuote, escAtEnd]
              have e0 : ¬ nul = c := fun h => h3 h.symm
              have e1 : ¬ '\n' = c := fun h => h4 h.symm
              have e2 : ¬ '\r' = c := fun h => h5 h.symm
              simp [i1, i2, i3, i4, i5, e0, e1, e2, h1, h2]

theorem srcNl_id : ∀ (s : Str) (b : Bool), '\n' ∉ s → '\r' ∉ s → srcNl b s = s := by
  intro s
  induction s with
  | nil => intro b _ _; rfl
  | cons c cs ih =>
    intro b h1 h2
    simp only [List.mem_cons, not_or] at h1 h2
    have e1 : ¬ c = '\r' := fun h => h2.1 h.symm
    have e2 : ¬ c = '\n' := fun h => h1.1 h.symm
    simp only [srcNl, e1, e2, if_false, false_and]
    rw [ih false h1.2 h2.2]

theorem no_bare_newline : ∀ (s : Str) (b : Bool), '\n' ∉ s → hasBareNewline b s = false := by
  intro s
  induction s with
  | nil => intro b _; rfl
  | cons c cs ih =>
    intro b h1
    simp only [List.mem_cons, not_or] at h1
    have e2 : ¬ c = '\n' := fun h => h1.1 h.symm
    unfold hasBareNewline
    cases b
    · simp only [Bool.false_eq_true, if_false, e2]; exact ih _ h1.2
    · simp only [if_true]; exact ih _ h1.2

/-- **C15_py_line**: a one-line site written through `pyline` evaluates to exactly the text - any characters. -/
theorem C15_py_line (s : Str) : lineValue (pyline s) = .ok s := by
  obtain ⟨i1, i2, i3, i4, i5⟩ := pyline_clean s
  unfold lineValue srcNewlines
  have j1 : (pyline s).contains nul = false := contains_false i1
  rw [srcNl_id _ _ i2 i3]
  simp only [j1, no_bare_newline _ _ i2, i4, i5, Bool.or_self, Bool.false_eq_true, if_false]
  exact evalBody_pyline s _ (Nat.lt_succ_self _)

/-! the tokenizer's newline normalisation commutes with the block escaping and only touches white space -/

theorem isWs_cr : isWs '\r' = true := by decide +kernel
theorem isWs_lf : isWs '\n' = true := by decide +kernel

theorem dropWs_srcNl : ∀ (s : Str) (b : Bool), dropWs (srcNl b s) = dropWs s := by
  intro s
  induction s with
  | nil => intro b; rfl
  | cons c cs ih =>
    intro b
    unfold srcNl
    by_cases h1 : c = '\r'
    · subst h1
      simp only [if_true, dropWs, List.filter_cons, isWs_cr, isWs_lf, Bool.not_true, Bool.false_eq_true, if_false]
      exact ih true
    · by_cases h2 : c = '\n' ∧ b = true
      · obtain ⟨rfl, rfl⟩ := h2
        simp only [h1, if_false, and_self, if_true, dropWs, List.filter_cons, isWs_lf, Bool.not_true, Bool.false_eq_true]
        exact ih false
      · simp only [h1, h2, if_false, dropWs, List.filter_cons]
        have := ih false
        simp only [dropWs] at this
        rw [this]

theorem srcNl_pyblock : ∀ (s : Str) (b : Bool), srcNl b (pyblock s) = pyblock (srcNl b s) := by
  intro s
  induction s with
  | nil => intro b; rfl
  | cons c cs ih =>
    intro b
    obtain ⟨n1, n2, n3, n4, n5, n6, n7, n8⟩ := nul_ne
    by_cases h1 : c = '\\'
    · subst h1
      have e : srcNl b ('\\' :: cs) = '\\' :: srcNl false cs := by simp [srcNl]
      rw [e, pyblock_cons, pyblock_cons]
      simp only [if_true, List.cons_append, List.nil_append]
      simp [srcNl, ih false]
    · by_cases h2 : c = '"'
      · subst h2
        have e : srcNl b ('"' :: cs) = '"' :: srcNl false cs := by simp [srcNl]
        rw [e, pyblock_cons, pyblock_cons]
        simp [srcNl, ih false]
      · by_cases h3 : c = nul
        · subst h3
          have e : srcNl b (nul :: cs) = nul :: srcNl false cs := by simp [srcNl, n3, n4]
          rw [e, pyblock_cons, pyblock_cons]
          simp [srcNl, ih false, n1, n2]
        · rw [pyblock_cons]
          simp only [h1, h2, h3, if_false, List.cons_append, List.nil_append]
          by_cases h4 : c = '\r'
          · subst h4
            simp only [srcNl, if_true, List.cons_append, List.nil_append]
            rw [pyblock_cons, ih true]
            have d1 : ¬ '\n' = '\\' := by decide
            have d2 : ¬ '\n' = '"' := by decide
            have d3 : ¬ '\n' = nul := by decide
            simp only [d1, d2, d3, if_false, List.cons_append, List.nil_append]
          · by_cases h5 : c = '\n' ∧ b = true
            · obtain ⟨rfl, rfl⟩ := h5
              simp only [srcNl, h4, if_false, and_self, if_true]
              exact ih false
            · simp only [srcNl, h4, h5, if_false]
              rw [pyblock_cons]
              simp [h1, h2, h3, ih false]

/-- **C15_py_block**: a block site written as `pyblock (wordwrap text)` evaluates to the text up to white space - for
every text (backslashes, apostrophes, line breaks, NUL, non-ASCII …) and every wrapping function that itself only
changes white space. -/
theorem C15_py_block (w : Str → Str) (s : Str) (hw : dropWs (w s) = dropWs s) :
    ∃ v, blockValue (pyblock (w s)) = .ok v ∧ dropWs v = dropWs s := by
  obtain ⟨c1, c2⟩ := pyblock_clean (w s)
  refine ⟨srcNl false (w s ++ ['\n']), ?_, ?_⟩
  · unfold blockValue
    have j1 : (pyblock (w s)).contains nul = false := contains_false c1
    simp only [j1, c2, Bool.or_self, Bool.false_eq_true, if_false]
    have e1 : pyblock (w s) ++ ['\n'] = pyblock (w s ++ ['\n']) := by
      simp [pyblock, nul_ne]
      decide
    have e2 : srcNewlines ('\\' :: '\n' :: (pyblock (w s) ++ ['\n'])) = '\\' :: '\n' :: pyblock (srcNl false (w s ++ ['\n'])) := by
      rw [e1]
      simp [srcNewlines, srcNl, srcNl_pyblock]
    rw [show ('\\' :: '\n' :: pyblock (w s) ++ ['\n']) = '\\' :: '\n' :: (pyblock (w s) ++ ['\n']) from rfl, e2]
    unfold eval
    simp only [List.length_cons]
    rw [evalBody]
    apply evalBody_pyblock
    omega
  · rw [dropWs_srcNl]
    simp only [dropWs, List.filter_append, List.filter_cons, isWs_lf, Bool.not_true, Bool.false_eq_true, if_false, List.filter_nil,
      List.append_nil]
    exact hw

/-- **C15_py_block_needs_escaping** (the pinned behaviour, F21): written without `pyblock`, a text with a backslash is
evaluated to something else or does not compile. -/
theorem C15_py_block_needs_escaping :
    blockValue "C:\\new".toList = .ok "C:\new\n".toList ∧ blockValue "\\x".toList = .error .syntaxError ∧
    lineValue "a\\".toList = .error .syntaxError := by decide +kernel

end Pysmi.PyStr

namespace Pysmi.Generated.Text

/-- every free-form text of the pysnmp template goes through the escaping filter of its literal shape -/
theorem pin_pysnmpTextSites : pysnmpTextSites = [
  ("definition['organization']|wordwrap|pyblock", "block"),
  ("definition['contactinfo']|wordwrap|pyblock", "block"),
  ("definition['description']|wordwrap|pyblock", "block"),
  ("definition['displayhint']|pyline", "line"),
  ("definition['description']|wordwrap|pyblock", "block"),
  ("definition['units']|pyline", "line"),
  ("definition['reference']|wordwrap|pyblock", "block"),
  ("definition['description']|wordwrap|pyblock", "block"),
  ("definition['description']|wordwrap|pyblock", "block"),
  ("definition['description']|wordwrap|pyblock", "block"),
  ("definition['description']|wordwrap|pyblock", "block"),
  ("definition['productrelease']|pyline", "line"),
  ("definition['reference']|pyline", "line"),
  ("definition['description']|wordwrap|pyblock", "block"),
  ("definition['description']|wordwrap|pyblock", "block")] := rfl

/-- Python's white-space class as pinned when the model was written -/
theorem pin_pyWhitespace : pyWhitespace = [9, 10, 11, 12, 13, 28, 29, 30, 31, 32, 133, 160, 5760, 8192, 8193, 8194, 8195, 8196,
  8197, 8198, 8199, 8200, 8201, 8202, 8232, 8233, 8239, 8287, 12288] := rfl

end Pysmi.Generated.Text
