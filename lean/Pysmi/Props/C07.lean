import Pysmi.Lemmas.Store
import Pysmi.Props.C09
/-!
# C07 — compile() accounts for every module; statuses match effects; errors contained

Full statement (as given): for every assignment of outcomes to every component call, every
import graph and option set, `compile` returns a status map (never raises for package
errors) with exactly one of six statuses per requested/reachable module; each module's text
is handed to the writer at most once; a module is `compiled`/`borrowed` exactly when that
hand-over happened and succeeded; the text is what the generator or borrower produced;
failed entries carry the causing error.

Proved below for *every* configuration: totality (the only way not to return is the
discovery loop, see C08), one status per key, failed entries carry their error, writer calls
= one per built module with its own text, and the status/hand-over equivalence for every
module that reaches the store step without an earlier status other than `borrowed`
(`C07_written_iff_reported_partial`; the residue — a name that failed *and* was obtained
through another file — is recorded in DESIGN.md §7).
-/
namespace Pysmi.Compile
open Pysmi

/-- **C07_no_raise / totality**: whenever discovery terminates the model returns a status map;
every component error is consumed by a handler (there is no error outcome of `run`). -/
theorem C07_total (c : Cfg) (req : List Name) (o : Opts) (fuel : Nat) :
    (run c req o fuel).isSome = (discover c req fuel { queue := req }).isSome := by
  unfold run beforeGate
  cases discover c req fuel { queue := req } <;> rfl

theorem inv_storeStep (c : Cfg) (o : Opts) (s : St) (n : Name)
    (h : s.processed.keys.Nodup ∧ AList.All EntryOK s.processed) :
    (storeStep c o s n).processed.keys.Nodup ∧ AList.All EntryOK (storeStep c o s n).processed := by
  unfold storeStep
  cases s.built.get? n with
  | none => exact h
  | some r =>
    obtain ⟨alias, mtime, data⟩ := r
    simp only
    cases o.writeMibs <;> cases c.put n data o.dryRun <;> cases hc : s.processed.contains n <;>
      simp only [St.log, hc, if_true, if_false, Bool.false_eq_true] <;>
      first
      | exact h
      | exact ⟨AList.nodup_keys_set _ _ _ h.1, AList.all_set _ _ _ h.2 (by intro hh; first | rfl | cases hh)⟩

theorem inv_afterGate (c : Cfg) (o : Opts) (s : St) (h : Inv s) :
    (afterGate c o s).processed.keys.Nodup ∧ AList.All EntryOK (afterGate c o s).processed := by
  unfold afterGate
  split
  · unfold markUnprocessed
    simp only
    have : ∀ (ks : List Name) (p : AList Name Entry), (p.keys.Nodup ∧ AList.All EntryOK p) →
        ((ks.foldl (fun p n => p.set n { st := .unprocessed }) p).keys.Nodup ∧
          AList.All EntryOK (ks.foldl (fun p n => p.set n { st := .unprocessed }) p)) := by
      intro ks
      induction ks with
      | nil => intro p hp; exact hp
      | cons k ks ih =>
        intro p hp
        exact ih _ ⟨AList.nodup_keys_set _ _ _ hp.1, AList.all_set _ _ _ hp.2 (by intro hh; cases hh)⟩
    exact this _ _ ⟨h.procNodup, h.procOK⟩
  · unfold phaseStore
    have : ∀ (ks : List Name) (s : St), (s.processed.keys.Nodup ∧ AList.All EntryOK s.processed) →
        ((ks.foldl (storeStep c o) s).processed.keys.Nodup ∧
          AList.All EntryOK (ks.foldl (storeStep c o) s).processed) := by
      intro ks
      induction ks with
      | nil => intro s hs; exact hs
      | cons k ks ih => intro s hs; exact ih _ (inv_storeStep c o s k hs)
    exact this _ _ ⟨h.procNodup, h.procOK⟩

/-- **C07_one_status**: the returned map has pairwise distinct keys (each module exactly one
status; the status type has exactly the six documented values). -/
theorem C07_one_status (c : Cfg) (req : List Name) (o : Opts) (fuel : Nat) (out : Out)
    (h : run c req o fuel = some out) : out.processed.keys.Nodup := by
  unfold run at h
  cases hb : beforeGate c req o fuel with
  | none => simp [hb] at h
  | some s =>
    simp only [hb, Option.map_some, Option.some.injEq] at h
    rw [← h]
    exact (inv_afterGate c o s (inv_beforeGate c req o fuel s hb)).1

/-- **C07_failed_carry_error**: every `failed` entry of the result carries its causing error. -/
theorem C07_failed_carry_error (c : Cfg) (req : List Name) (o : Opts) (fuel : Nat) (out : Out)
    (h : run c req o fuel = some out) (n : Name) (e : Entry) (he : (n, e) ∈ out.processed)
    (hf : e.st = .failed) : e.err.isSome = true := by
  unfold run at h
  cases hb : beforeGate c req o fuel with
  | none => simp [hb] at h
  | some s =>
    simp only [hb, Option.map_some, Option.some.injEq] at h
    rw [← h] at he
    exact (inv_afterGate c o s (inv_beforeGate c req o fuel s hb)).2 (n, e) he hf

/-- **C07_put_once**: over the whole run each module is handed to the writer at most once, and
the text handed over is the one stored for it in `built` (generator's or borrower's). -/
theorem C07_put_once (c : Cfg) (req : List Name) (o : Opts) (fuel : Nat) (s : St) (out : Out)
    (hs : beforeGate c req o fuel = some s) (h : run c req o fuel = some out) :
    (out.trace.filter Call.isPut = [] ∨ out.trace.filter Call.isPut = putCalls o s.built) ∧
    s.built.keys.Nodup := by
  have hinv := inv_beforeGate c req o fuel s hs
  refine ⟨?_, hinv.builtNodup⟩
  have hnp : s.trace.filter Call.isPut = [] := by
    rw [List.filter_eq_nil_iff]; intro x hx; simp [hinv.noPut x hx]
  simp only [run, hs, Option.map_some, Option.some.injEq] at h
  rw [← h]
  unfold afterGate
  split
  · left; simpa [markUnprocessed] using hnp
  · right
    simp only [phaseStore, phaseStore_trace c o s.built s rfl, List.filter_append, hnp, List.nil_append]
    unfold putCalls
    split
    · rw [List.filter_eq_self]; intro x hx; simp only [List.mem_map] at hx
      obtain ⟨e, _, rfl⟩ := hx; rfl
    · rfl

/-- **C07_written_iff_reported (partial)**: with writing enabled and the gate passed, a built
module that had no earlier status, or `borrowed`, is reported `compiled`/`borrowed` iff its
hand-over to the writer succeeded, and `failed` (with the writer error) otherwise. -/
theorem C07_written_iff_reported_partial (c : Cfg) (req : List Name) (o : Opts) (fuel : Nat) (s : St)
    (hs : beforeGate c req o fuel = some s) (hpass : s.failed.isEmpty = true ∨ o.ignoreErrors = true)
    (hw : o.writeMibs = true)
    (n alias : Name) (mtime : Int) (data : Nat) (hm : (n, alias, mtime, data) ∈ s.built)
    (hstale : s.processed.get? n = none ∨ ∃ a, s.processed.get? n = some { st := .borrowed, alias := a }) :
    ∃ out e, run c req o fuel = some out ∧ out.processed.get? n = some e ∧
      ((e.st = .compiled ∨ e.st = .borrowed) ↔ c.put n data o.dryRun = true) ∧
      (c.put n data o.dryRun = false → e.st = .failed ∧ e.err = some (.call (.put n data o.dryRun))) := by
  obtain ⟨out, h1, h2⟩ := C09_store_status c req o fuel s hs hpass n alias mtime data hm
  cases hput : c.put n data o.dryRun
  · refine ⟨out, _, h1, by rw [h2]; simp [storedEntry, hw, hput]; rfl, ?_, ?_⟩ <;> simp
  · rcases hstale with hn | ⟨a, hn⟩
    · refine ⟨out, _, h1, by rw [h2]; simp [storedEntry, hw, hput, hn]; rfl, ?_, ?_⟩ <;> simp
    · refine ⟨out, _, h1, by rw [h2]; simp [storedEntry, hw, hput, hn]; rfl, ?_, ?_⟩ <;> simp

end Pysmi.Compile
