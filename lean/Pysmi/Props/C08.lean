import Pysmi.Lemmas.Compile
/-!
# C08 — dependencies are followed transitively, in source order, and always terminate

`C08_terminates`: for **every** configuration whose import lists draw from a finite universe
of names (any finite universe: cycles, self-imports, several modules per file, files named
unlike their module, any number of sources and any outcome assignment), the discovery loop
of `compile` stops: there is a fuel for which `run` returns. This is the theorem that does
not hold for the code before commit d4ef293 (`C08_nonterminating_witness`).
-/
namespace Pysmi.Compile
open Pysmi

/-- all names a configuration can ever mention lie in `U` -/
def Closed (c : Cfg) (U : List Name) : Prop :=
  ∀ t name imps, c.sym t = .ok name imps → ∀ x ∈ imps, x ∈ U

/-- number of names of the universe not looked up yet -/
def unfetched (U : List Name) (s : St) : Nat := (U.filter (fun x => decide (x ∉ s.fetched))).length

structure QInv (U : List Name) (s0 s : St) : Prop where
  fetched : s.fetched = s0.fetched
  queue : ∀ x ∈ s.queue, x ∈ U

theorem qinv_failSource {U : List Name} {s0 s : St} (n : Name) (e : Err) (h : QInv U s0 s) :
    QInv U s0 (failSource s n e) := ⟨h.fetched, h.queue⟩

theorem qinv_log {U : List Name} {s0 s : St} (c : Call) (h : QInv U s0 s) : QInv U s0 (s.log c) :=
  ⟨h.fetched, h.queue⟩

theorem qinv_registerTree {U : List Name} {s0 s : St} (req : List Name) (n alias : Name) (mtime : Int)
    (tree : Nat) (name : Name) (imports : List Name) (hi : ∀ x ∈ imports, x ∈ U) (h : QInv U s0 s) :
    QInv U s0 (registerTree req s n alias mtime tree name imports) := by
  unfold registerTree
  simp only
  have hq : ∀ x ∈ s.queue ++ imports, x ∈ U := by
    intro x hx
    rcases List.mem_append.mp hx with hx | hx
    · exact h.queue x hx
    · exact hi x hx
  have e1 : ∀ (t : St) (k : Name), (clearStale t k).fetched = t.fetched ∧ (clearStale t k).queue = t.queue := by
    intro t k; unfold clearStale; split <;> exact ⟨rfl, rfl⟩
  split <;> refine ⟨?_, ?_⟩ <;>
    first
    | (simp only [(e1 _ _).1]; exact h.fetched)
    | (simp only [(e1 _ _).2]; exact hq)

theorem qinv_symTrees {U : List Name} (c : Cfg) (hc : Closed c U) (req : List Name) (n alias : Name)
    (mtime : Int) (ts : List Nat) (s0 s : St) (h : QInv U s0 s) :
    QInv U s0 (symTrees c req n alias mtime ts s).1 := by
  induction ts generalizing s with
  | nil => exact h
  | cons t ts ih =>
    unfold symTrees
    simp only
    split
    · exact qinv_log _ h
    · rename_i name imps hs
      exact ih _ (qinv_registerTree req n alias mtime t name imps (hc t name imps hs) (qinv_log _ h))

theorem qinv_trySources {U : List Name} (c : Cfg) (hc : Closed c U) (req : List Name) (n : Name)
    (srcs : List (Name → SrcAns)) (i : Nat) (s0 s : St) (h : QInv U s0 s) :
    QInv U s0 (trySources c req n srcs i s) := by
  induction srcs generalizing i s with
  | nil =>
    unfold trySources
    simp only
    split <;> split <;> exact ⟨h.fetched, h.queue⟩
  | cons src rest ih =>
    unfold trySources
    simp only
    split
    · exact ih _ _ (qinv_log _ h)
    · exact ih _ _ (qinv_failSource _ _ (qinv_log _ h))
    · rename_i alias mtime text _
      split
      · exact ih _ _ (qinv_failSource _ _ (qinv_log _ (qinv_log _ h)))
      · exact ih _ _ (qinv_failSource _ _ (qinv_log _ (qinv_log _ h)))
      · rename_i ts _ _
        have hsym := qinv_symTrees c hc req n alias mtime ts s0 _ (qinv_log (.parse text) (qinv_log (.get i n) h))
        split
        · rename_i hst
          rw [hst] at hsym
          exact ih _ _ (qinv_failSource _ _ hsym)
        · rename_i hst
          rw [hst] at hsym
          exact hsym

theorem filter_length_mono {α} (p q : α → Bool) (h : ∀ x, p x = true → q x = true) (l : List α) :
    (l.filter p).length ≤ (l.filter q).length := by
  induction l with
  | nil => simp
  | cons a l ih =>
    simp only [List.filter_cons]
    cases hp : p a
    · cases hq : q a <;> simp <;> omega
    · simp [h a hp]; omega

theorem unfetched_cons_lt (U : List Name) (s : St) (n : Name) (hn : n ∈ U) (hf : n ∉ s.fetched) :
    unfetched U { s with fetched := n :: s.fetched } < unfetched U s := by
  unfold unfetched
  simp only
  induction U with
  | nil => cases hn
  | cons u U ih =>
    simp only [List.filter_cons]
    by_cases hu : u = n
    · subst hu
      have h1 : decide (u ∉ u :: s.fetched) = false := by simp
      have h2 : decide (u ∉ s.fetched) = true := by simp [hf]
      simp only [h1, h2, Bool.false_eq_true, if_false, if_true, List.length_cons]
      have : (U.filter (fun x => decide (x ∉ u :: s.fetched))).length ≤
          (U.filter (fun x => decide (x ∉ s.fetched))).length := by
        apply filter_length_mono
        intro x hx
        simp only [List.mem_cons, not_or, decide_eq_true_eq] at hx ⊢
        exact hx.2
      omega
    · rcases List.mem_cons.mp hn with h | h
      · exact absurd h.symm hu
      · have := ih h
        by_cases hm : u ∈ s.fetched
        · have h1 : decide (u ∉ n :: s.fetched) = false := by simp [hm]
          have h2 : decide (u ∉ s.fetched) = false := by simp [hm]
          simp only [h1, h2, Bool.false_eq_true, if_false]
          exact this
        · have h1 : decide (u ∉ n :: s.fetched) = true := by simp [hm, hu]
          have h2 : decide (u ∉ s.fetched) = true := by simp [hm]
          simp only [h1, h2, if_true, List.length_cons]
          omega

/-- the heart of the termination argument: lexicographic in (names not looked up, queue length) -/
theorem discover_terminates_aux (c : Cfg) (U : List Name) (hc : Closed c U) (req : List Name) :
    ∀ (k : Nat) (m : Nat) (s : St), unfetched U s ≤ k → s.queue.length ≤ m → (∀ x ∈ s.queue, x ∈ U) →
      ∃ fuel s', discover c req fuel s = some s' := by
  intro k
  induction k with
  | zero =>
    intro m
    induction m with
    | zero =>
      intro s _ hm _
      have : s.queue = [] := List.eq_nil_of_length_eq_zero (Nat.le_zero.mp hm)
      exact ⟨1, s, by simp [discover, this]⟩
    | succ m ihm =>
      intro s hk hm hq
      cases hqq : s.queue with
      | nil => exact ⟨1, s, by simp [discover, hqq]⟩
      | cons n q =>
        have hnU : n ∈ U := hq n (by simp [hqq])
        -- with no unfetched name left, `n` was already looked up: the step is a skip
        have hfetched : n ∈ s.fetched := by
          by_cases hnf : n ∈ s.fetched
          · exact hnf
          · exfalso
            have : 0 < unfetched U s := by
              unfold unfetched
              apply List.length_pos_of_mem (a := n)
              simp [hnU, hnf]
            omega
        have hstep : discoverStep c req n { s with queue := q } = { s with queue := q } := by
          unfold discoverStep
          simp [hfetched]
        obtain ⟨fuel, s', hd⟩ := ihm { s with queue := q } hk
          (by simp [hqq] at hm; simpa using hm) (fun x hx => hq x (by simp [hqq, hx]))
        exact ⟨fuel + 1, s', by simp [discover, hqq, hstep, hd]⟩
  | succ k ihk =>
    intro m
    induction m with
    | zero =>
      intro s _ hm _
      have : s.queue = [] := List.eq_nil_of_length_eq_zero (Nat.le_zero.mp hm)
      exact ⟨1, s, by simp [discover, this]⟩
    | succ m ihm =>
      intro s hk hm hq
      cases hqq : s.queue with
      | nil => exact ⟨1, s, by simp [discover, hqq]⟩
      | cons n q =>
        have hnU : n ∈ U := hq n (by simp [hqq])
        have hq' : ∀ x ∈ q, x ∈ U := fun x hx => hq x (by simp [hqq, hx])
        by_cases hskip : discoverStep c req n { s with queue := q } = { s with queue := q }
        · obtain ⟨fuel, s', hd⟩ := ihm { s with queue := q } hk
            (by simp [hqq] at hm; simpa using hm) hq'
          exact ⟨fuel + 1, s', by simp [discover, hqq, hskip, hd]⟩
        · -- a real lookup: one more name of the universe is consumed
          have hnf : n ∉ s.fetched := by
            intro hf; apply hskip; unfold discoverStep; simp [hf]
          have hform : discoverStep c req n { s with queue := q } =
              trySources c req n c.sources 0 { s with queue := q, fetched := n :: s.fetched } := by
            unfold discoverStep
            by_cases h1 : s.parsed.contains n = true
            · exact absurd (by unfold discoverStep; simp [h1]) hskip
            · by_cases h2 : s.failed.contains n = true
              · exact absurd (by unfold discoverStep; simp [h1, h2]) hskip
              · simp [h1, h2, hnf]
          have hqi := qinv_trySources c hc req n c.sources 0
            { s with queue := q, fetched := n :: s.fetched }
            { s with queue := q, fetched := n :: s.fetched } ⟨rfl, hq'⟩
          have hlt := unfetched_cons_lt U s n hnU hnf
          have hun : unfetched U (trySources c req n c.sources 0 { s with queue := q, fetched := n :: s.fetched }) ≤ k := by
            have : unfetched U (trySources c req n c.sources 0 { s with queue := q, fetched := n :: s.fetched }) =
                unfetched U { s with fetched := n :: s.fetched } := by
              unfold unfetched; rw [hqi.fetched]
            omega
          obtain ⟨fuel, s', hd⟩ := ihk _ _ hun (Nat.le_refl _) hqi.queue
          exact ⟨fuel + 1, s', by simp [discover, hqq, hform, hd]⟩

/-- **C08_terminates**: for every configuration over a finite universe of names, `compile` returns. -/
theorem C08_terminates (c : Cfg) (U : List Name) (hc : Closed c U) (req : List Name)
    (hreq : ∀ x ∈ req, x ∈ U) (o : Opts) : ∃ fuel out, run c req o fuel = some out := by
  obtain ⟨fuel, s', hd⟩ := discover_terminates_aux c U hc req (unfetched U { queue := req }) req.length
    { queue := req } (Nat.le_refl _) (Nat.le_refl _) hreq
  have : (run c req o fuel).isSome = true := by simp [run, beforeGate, hd]
  obtain ⟨out, ho⟩ := Option.isSome_iff_exists.mp this
  exact ⟨fuel, out, ho⟩

/-! ### witness: the alias cycle that made the original code loop forever now terminates -/

/-- file requested as `0` holds module `1`, which imports `0` -/
def aliasCycleCfg : Cfg :=
  { sources := [fun n => if n = 0 then .ok 0 10 1 else .notFound]
    parse := fun _ => .trees [1]
    sym := fun _ => .ok 1 [0]
    gen := fun t _ => .ok (1000 + t)
    searchers := [], borrowers := [], put := fun _ _ _ => true }

example : Closed aliasCycleCfg [0, 1] := by
  intro t name imps h x hx
  simp [aliasCycleCfg] at h
  obtain ⟨_, rfl⟩ := h
  simp at hx; simp [hx]

example : ((run aliasCycleCfg [0] {} 10).map (fun out => out.processed.map (fun e => (e.1, e.2.st)))) =
    some [(1, .compiled)] := by decide +kernel

/-- the discovery loop *without* the looked-up set (the code before the fix), for the witness -/
def discoverStepOld (c : Cfg) (req : List Name) (n : Name) (s : St) : St :=
  if s.parsed.contains n then s
  else if s.failed.contains n then s
  else trySources c req n c.sources 0 s

def discoverOld (c : Cfg) (req : List Name) : Nat → St → Option St
  | 0, _ => none
  | fuel + 1, s =>
    match s.queue with
    | [] => some s
    | n :: q => discoverOld c req fuel (discoverStepOld c req n { s with queue := q })

/-- **Witness (F3)**: without the looked-up set the alias cycle exhausts any fuel. -/
theorem C08_nonterminating_witness (fuel : Nat) :
    ∀ s : St, s.queue = [0] → s.failed = [] → (s.parsed = [] ∨ s.parsed = [(1, (0, 10, 1))]) →
      discoverOld aliasCycleCfg [0] fuel s = none := by
  induction fuel with
  | zero => intro s _ _ _; rfl
  | succ fuel ih =>
    intro s hq hf hp
    unfold discoverOld
    simp only [hq]
    refine ih _ ?_ ?_ ?_ <;>
      (rcases hp with hp | hp <;> by_cases hcan : (1 : Nat) ∈ s.canonical <;>
        simp [discoverStepOld, hp, hf, hcan, AList.contains, AList.get?, trySources, aliasCycleCfg, symTrees,
          registerTree, clearStale, St.log, AList.set])

end Pysmi.Compile
