import Pysmi.Model.Writer
/-!
# C13 — writing a module is atomic under I/O faults; dry-run touches nothing

Full statement: for every fault script (any error or short write at any system call of
`putData`, any number of short writes), every data size, fresh or existing destination and
both file writers, after the call the destination holds its previous content or the complete
new text (after a byte-compilation failure it may be absent), never a partial file; no
temporary file remains; a fault surfaces as the writer error; success means the full text is
stored; dry-run changes nothing. For two concurrent writers of the same module the
destination is never partial under **any** schedule.

`Solo` is the single-writer invariant of the small-step machine, proved preserved by every
step under every fault; `C13_atomic` reads the conclusions off the terminal states;
`C13_terminates` shows the machine always reaches one. `C13_short_write_witness` is the
defect of the code before commit 666a317.
-/
namespace Pysmi.Writer

/-- no `error` fault in the rest of the script -/
def NoErr (fl : List Fault) : Prop := ∀ f ∈ fl, f ≠ Fault.error
/-- at most one `error` fault in the script ("whichever single I/O step fails") -/
def AtMostOne : List Fault → Prop
  | [] => True
  | f :: fl => if f = Fault.error then NoErr fl else AtMostOne fl

theorem NoErr.atMostOne {fl : List Fault} (h : NoErr fl) : AtMostOne fl := by
  induction fl with
  | nil => trivial
  | cons f fl ih =>
    have hf : f ≠ Fault.error := h f (by simp)
    simp only [AtMostOne, hf, if_false]
    exact ih (fun g hg => h g (by simp [hg]))

theorem NoErr.tail {f : Fault} {fl : List Fault} (h : NoErr (f :: fl)) : NoErr fl :=
  fun g hg => h g (by simp [hg])

/-- single-writer invariant; `prev` is the destination's content before the call -/
def Solo (prev : Content) (w : W) (fs : FS) (fl : List Fault) : Prop :=
  match w.pc with
  | .start => fs.dest = prev ∧ fs.tmp w.id = none ∧ w.remaining = w.len ∧ AtMostOne fl
  | .mkstemp => fs.dest = prev ∧ fs.tmp w.id = none ∧ w.remaining = w.len ∧ AtMostOne fl
  | .write => fs.dest = prev ∧ fs.tmp w.id = some (.data w.id (w.len - w.remaining)) ∧
      0 < w.remaining ∧ w.remaining ≤ w.len ∧ AtMostOne fl
  | .close => fs.dest = prev ∧ fs.tmp w.id = some (.data w.id w.len) ∧ AtMostOne fl
  | .rename => fs.dest = prev ∧ fs.tmp w.id = some (.data w.id w.len) ∧ AtMostOne fl
  | .cleanup => fs.dest = prev ∧ (fs.tmp w.id).isSome ∧ NoErr fl
  | .compile => fs.dest = .data w.id w.len ∧ fs.tmp w.id = none ∧ w.kind = .py ∧ AtMostOne fl
  | .rmmodule => fs.dest = .data w.id w.len ∧ fs.tmp w.id = none ∧ w.kind = .py ∧ NoErr fl
  | .done .ok => fs.dest = .data w.id w.len ∧ fs.tmp w.id = none
  | .done .writerError => (fs.dest = prev ∨ (fs.dest = .absent ∧ w.kind = .py)) ∧ fs.tmp w.id = none
  | .done .osError => False

/-- the driver step: consume a fault only when the next step issues a faultable call -/
def drive (fl : List Fault) (w : W) (fs : FS) : List Fault × W × FS :=
  if needsFault w fs then
    match fl with
    | [] => ([], step .none w fs)
    | f :: fl => (fl, step f w fs)
  else (fl, step .none w fs)

theorem runOne_succ (fuel : Nat) (fl : List Fault) (w : W) (fs : FS) :
    runOne (fuel + 1) fl w fs =
      if w.finished then (w, fs) else runOne fuel (drive fl w fs).1 (drive fl w fs).2.1 (drive fl w fs).2.2 := by
  unfold drive
  conv => lhs; unfold runOne
  split
  · rfl
  · split
    · cases fl <;> rfl
    · rfl

theorem atMostOne_tail_of_ne {f : Fault} {fl : List Fault} (h : AtMostOne (f :: fl)) (hf : f ≠ .error) :
    AtMostOne fl := by simpa [AtMostOne, hf] using h

theorem noErr_of_error {fl : List Fault} (h : AtMostOne (Fault.error :: fl)) : NoErr fl := by
  simpa [AtMostOne] using h

/-- **the invariant is preserved by every step under every fault** -/
theorem solo_drive (prev : Content) (w : W) (fs : FS) (fl : List Fault) (h : Solo prev w fs fl)
    (hnf : w.finished = false) :
    Solo prev (drive fl w fs).2.1 (drive fl w fs).2.2 (drive fl w fs).1 := by
  unfold drive
  cases hpc : w.pc with
  | done r => simp [W.finished, hpc] at hnf
  | start =>
    simp only [Solo, hpc] at h
    obtain ⟨h1, h2, h3, h4⟩ := h
    by_cases hd : fs.dirExists = true
    · simp [needsFault, hpc, hd, step, Solo, h1, h2, h3, h4]
    · have hd' : fs.dirExists = false := by simpa using hd
      cases fl with
      | nil => simp [needsFault, hpc, hd', step, Solo, h1, h2, h3, FS.log, AtMostOne]
      | cons f fl =>
        cases f <;> simp [needsFault, hpc, hd', step, Solo, h1, h2, h3, FS.log] <;>
          first
          | exact atMostOne_tail_of_ne h4 (by simp)
          | skip
  | mkstemp =>
    simp only [Solo, hpc] at h
    obtain ⟨h1, h2, h3, h4⟩ := h
    cases fl with
    | nil =>
      by_cases hr : w.remaining = 0
      · simp [needsFault, hpc, step, Solo, h1, hr, FS.log, FS.setTmp, AtMostOne]; omega
      · have hl : ¬ w.len = 0 := by omega
        simp [needsFault, hpc, step, Solo, h1, hr, FS.log, FS.setTmp, AtMostOne, h3, hl]; omega
    | cons f fl =>
      cases f with
      | error => simp [needsFault, hpc, step, Solo, h1, h2, FS.log]
      | none =>
        have := atMostOne_tail_of_ne h4 (by simp)
        by_cases hr : w.remaining = 0
        · simp [needsFault, hpc, step, Solo, h1, hr, FS.log, FS.setTmp, this]; omega
        · have hl : ¬ w.len = 0 := by omega
          simp [needsFault, hpc, step, Solo, h1, hr, FS.log, FS.setTmp, this, h3, hl]; omega
      | short j =>
        have := atMostOne_tail_of_ne (f := .short j) h4 (by simp)
        by_cases hr : w.remaining = 0
        · simp [needsFault, hpc, step, Solo, h1, hr, FS.log, FS.setTmp, this]; omega
        · have hl : ¬ w.len = 0 := by omega
          simp [needsFault, hpc, step, Solo, h1, hr, FS.log, FS.setTmp, this, h3, hl]; omega
      | soft =>
        have := atMostOne_tail_of_ne (f := .soft) h4 (by simp)
        by_cases hr : w.remaining = 0
        · simp [needsFault, hpc, step, Solo, h1, hr, FS.log, FS.setTmp, this]; omega
        · have hl : ¬ w.len = 0 := by omega
          simp [needsFault, hpc, step, Solo, h1, hr, FS.log, FS.setTmp, this, h3, hl]; omega
  | write =>
    simp only [Solo, hpc] at h
    obtain ⟨h1, h2, h3, h4, h5⟩ := h
    cases fl with
    | nil => simp [needsFault, hpc, step, Solo, h1, FS.log, FS.setTmp, AtMostOne]
    | cons f fl =>
      cases f with
      | error => simp [needsFault, hpc, step, Solo, h1, h2, FS.log, noErr_of_error h5]
      | none => simp [needsFault, hpc, step, Solo, h1, FS.log, FS.setTmp, atMostOne_tail_of_ne h5 (by simp)]
      | soft => simp [needsFault, hpc, step, Solo, h1, FS.log, FS.setTmp, atMostOne_tail_of_ne (f := .soft) h5 (by simp)]
      | short j =>
        have ha := atMostOne_tail_of_ne (f := .short j) h5 (by simp)
        by_cases hr : w.remaining - min (j + 1) w.remaining = 0
        · simp [needsFault, hpc, step, Solo, h1, FS.log, FS.setTmp, ha, hr]
        · simp [needsFault, hpc, step, Solo, h1, FS.log, FS.setTmp, ha, hr]; omega
  | close =>
    simp only [Solo, hpc] at h
    obtain ⟨h1, h2, h3⟩ := h
    cases fl with
    | nil => simp [needsFault, hpc, step, Solo, h1, h2, FS.log, AtMostOne]
    | cons f fl =>
      cases f <;> simp [needsFault, hpc, step, Solo, h1, h2, FS.log] <;>
        first
        | exact atMostOne_tail_of_ne h3 (by simp)
        | exact noErr_of_error h3
  | rename =>
    simp only [Solo, hpc] at h
    obtain ⟨h1, h2, h3⟩ := h
    cases fl with
    | nil =>
      by_cases hk : w.kind = .py ∧ w.pyCompile = true
      · simp [needsFault, hpc, step, Solo, h2, FS.log, FS.setTmp, AtMostOne, hk]
      · simp [needsFault, hpc, step, Solo, h2, FS.log, FS.setTmp, AtMostOne, hk]
    | cons f fl =>
      cases f with
      | error => simp [needsFault, hpc, step, Solo, h1, h2, FS.log, noErr_of_error h3]
      | none =>
        have ha := atMostOne_tail_of_ne h3 (by simp)
        by_cases hk : w.kind = .py ∧ w.pyCompile = true
        · simp [needsFault, hpc, step, Solo, h2, FS.log, FS.setTmp, ha, hk]
        · simp [needsFault, hpc, step, Solo, h2, FS.log, FS.setTmp, ha, hk]
      | short j =>
        have ha := atMostOne_tail_of_ne (f := .short j) h3 (by simp)
        by_cases hk : w.kind = .py ∧ w.pyCompile = true
        · simp [needsFault, hpc, step, Solo, h2, FS.log, FS.setTmp, ha, hk]
        · simp [needsFault, hpc, step, Solo, h2, FS.log, FS.setTmp, ha, hk]
      | soft =>
        have ha := atMostOne_tail_of_ne (f := .soft) h3 (by simp)
        by_cases hk : w.kind = .py ∧ w.pyCompile = true
        · simp [needsFault, hpc, step, Solo, h2, FS.log, FS.setTmp, ha, hk]
        · simp [needsFault, hpc, step, Solo, h2, FS.log, FS.setTmp, ha, hk]
  | cleanup =>
    simp only [Solo, hpc] at h
    obtain ⟨h1, h2, h3⟩ := h
    obtain ⟨c, hc⟩ := Option.isSome_iff_exists.mp h2
    cases fl with
    | nil => simp [needsFault, hpc, step, Solo, h1, hc, FS.log, FS.setTmp]
    | cons f fl =>
      have hf : f ≠ .error := h3 f (by simp)
      cases f <;> simp [needsFault, hpc, step, Solo, h1, hc, FS.log, FS.setTmp] at hf ⊢
  | compile =>
    simp only [Solo, hpc] at h
    obtain ⟨h1, h2, h3, h4⟩ := h
    cases fl with
    | nil => simp [needsFault, hpc, step, Solo, h1, h2, FS.log]
    | cons f fl =>
      cases f <;> simp [needsFault, hpc, step, Solo, h1, h2, h3, FS.log]
      exact noErr_of_error h4
  | rmmodule =>
    simp only [Solo, hpc] at h
    obtain ⟨h1, h2, h3, h4⟩ := h
    cases fl with
    | nil => simp [needsFault, hpc, step, Solo, h1, h2, h3, FS.log]
    | cons f fl =>
      have hf : f ≠ .error := h4 f (by simp)
      cases f <;> simp [needsFault, hpc, step, Solo, h1, h2, h3, FS.log] at hf ⊢

theorem solo_runOne (prev : Content) (fuel : Nat) (fl : List Fault) (w : W) (fs : FS)
    (h : Solo prev w fs fl) :
    ∃ fl', Solo prev (runOne fuel fl w fs).1 (runOne fuel fl w fs).2 fl' := by
  induction fuel generalizing fl w fs with
  | zero => exact ⟨fl, h⟩
  | succ fuel ih =>
    rw [runOne_succ]
    by_cases hf : w.finished = true
    · simp only [hf, if_true]; exact ⟨fl, h⟩
    · have hf' : w.finished = false := by simpa using hf
      simp only [hf', Bool.false_eq_true, if_false]
      exact ih _ _ _ (solo_drive prev w fs fl h hf')

/-! ### termination: every write makes progress -/

def rank : PC → Nat
  | .start => 8 | .mkstemp => 7 | .write => 6 | .close => 5 | .rename => 4
  | .compile => 3 | .cleanup => 2 | .rmmodule => 1 | .done _ => 0

def measure (w : W) : Nat := w.remaining + rank w.pc

theorem step_decreases (f : Fault) (w : W) (fs : FS) (hnf : w.finished = false)
    (hw : w.pc = .write → 0 < w.remaining) : measure (step f w fs).1 < measure w := by
  unfold measure step
  cases hpc : w.pc with
  | done r => simp [W.finished, hpc] at hnf
  | start => by_cases hd : fs.dirExists = true <;> cases f <;> simp [hd, rank]
  | mkstemp =>
    by_cases hr : w.remaining = 0 <;> cases f <;> simp [hr, rank]
  | write =>
    have := hw hpc
    cases f with
    | short j =>
      by_cases hr : w.remaining - min (j + 1) w.remaining = 0
      · simp [hr, rank]
      · simp [hr, rank]; omega
    | _ => simp [rank] <;> omega
  | close => cases f <;> simp [rank]
  | rename => by_cases hk : w.kind = .py ∧ w.pyCompile = true <;> cases f <;> simp [hk, rank]
  | cleanup => cases fs.tmp w.id <;> cases f <;> simp [rank]
  | compile => cases f <;> simp [rank]
  | rmmodule => cases fs.dest <;> cases f <;> simp [rank]

theorem runOne_finishes (prev : Content) (fuel : Nat) (fl : List Fault) (w : W) (fs : FS)
    (h : Solo prev w fs fl) (hm : measure w ≤ fuel) : (runOne fuel fl w fs).1.finished = true := by
  induction fuel generalizing fl w fs with
  | zero =>
    cases hpc : w.pc <;> simp [measure, rank, hpc] at hm
    simp [runOne, W.finished, hpc]
  | succ fuel ih =>
    rw [runOne_succ]
    by_cases hf : w.finished = true
    · simp [hf]
    · have hf' : w.finished = false := by simpa using hf
      simp only [hf', Bool.false_eq_true, if_false]
      apply ih _ _ _ (solo_drive prev w fs fl h hf')
      have hw : w.pc = .write → 0 < w.remaining := by
        intro hpc; simp only [Solo, hpc] at h; exact h.2.2.1
      have : measure (drive fl w fs).2.1 < measure w := by
        unfold drive
        split
        · cases fl <;> exact step_decreases _ w fs hf' hw
        · exact step_decreases _ w fs hf' hw
      omega

/-- **C13_terminates**: `putData` finishes for every fault script and data size. -/
theorem C13_terminates (kind : Kind) (len : Nat) (pyc : Bool) (fl : List Fault) (fs : FS)
    (ht : fs.tmp 0 = none) (h1 : AtMostOne fl) :
    (runOne (fuelFor len) fl (mkW 0 kind len pyc) fs).1.finished = true := by
  apply runOne_finishes fs.dest
  · simp [Solo, mkW, ht, h1]
  · simp [measure, mkW, rank, fuelFor]

/-- **C13_atomic**: for every fault script with at most one `error` (any number of short
writes), both writers, every size, fresh or existing destination: the result is `ok` or the
writer error; the destination is its previous content or the complete new text (or absent
after a failed byte-compilation); no temporary file remains; `ok` ⇒ the full text is stored. -/
theorem C13_atomic (kind : Kind) (len : Nat) (pyc : Bool) (fl : List Fault) (fs : FS)
    (ht : fs.tmp 0 = none) (h1 : AtMostOne fl) (r : Res × FS) (hr : r = put kind len pyc false fl fs) :
    (r.1 = .ok ∨ r.1 = .writerError) ∧
    (r.2.dest = fs.dest ∨ r.2.dest = .data 0 len ∨ (r.2.dest = .absent ∧ kind = .py ∧ r.1 = .writerError)) ∧
    r.2.tmp 0 = none ∧
    (r.1 = .ok → r.2.dest = .data 0 len) ∧
    (r.1 = .writerError → r.2.dest ≠ .data 0 len ∨ fs.dest = .data 0 len) := by
  have hfin := C13_terminates kind len pyc fl fs ht h1
  obtain ⟨fl', hs⟩ := solo_runOne fs.dest (fuelFor len) fl (mkW 0 kind len pyc) fs
    (by simp [Solo, mkW, ht, h1])
  have hid : (runOne (fuelFor len) fl (mkW 0 kind len pyc) fs).1.id = 0 ∧
      (runOne (fuelFor len) fl (mkW 0 kind len pyc) fs).1.len = len ∧
      (runOne (fuelFor len) fl (mkW 0 kind len pyc) fs).1.kind = kind := by
    have : ∀ (fuel : Nat) (fl : List Fault) (w : W) (fs : FS),
        (runOne fuel fl w fs).1.id = w.id ∧ (runOne fuel fl w fs).1.len = w.len ∧
        (runOne fuel fl w fs).1.kind = w.kind := by
      intro fuel
      induction fuel with
      | zero => intro fl w fs; exact ⟨rfl, rfl, rfl⟩
      | succ fuel ih =>
        intro fl w fs
        rw [runOne_succ]
        split
        · exact ⟨rfl, rfl, rfl⟩
        · have hstep : ∀ f, (step f w fs).1.id = w.id ∧ (step f w fs).1.len = w.len ∧
              (step f w fs).1.kind = w.kind := by
            intro f
            unfold step
            cases w.pc <;> cases f <;> (try cases fs.tmp w.id) <;> (try cases fs.dest) <;>
              (try by_cases hd : fs.dirExists = true) <;> simp_all
          obtain ⟨i1, i2, i3⟩ := ih (drive fl w fs).1 (drive fl w fs).2.1 (drive fl w fs).2.2
          have hd : (drive fl w fs).2.1.id = w.id ∧ (drive fl w fs).2.1.len = w.len ∧
              (drive fl w fs).2.1.kind = w.kind := by
            unfold drive
            split
            · cases fl <;> exact hstep _
            · exact hstep _
          exact ⟨i1.trans hd.1, i2.trans hd.2.1, i3.trans hd.2.2⟩
    simpa [mkW] using this (fuelFor len) fl (mkW 0 kind len pyc) fs
  obtain ⟨hid0, hlen, hkind⟩ := hid
  subst hr
  unfold put
  simp only [Bool.false_eq_true, if_false]
  generalize hR : runOne (fuelFor len) fl (mkW 0 kind len pyc) fs = R at *
  cases hpc : R.1.pc with
  | done res =>
    cases res with
    | ok =>
      simp only [Solo, hpc, hid0, hlen] at hs
      simp [hs.1, hs.2]
    | writerError =>
      simp only [Solo, hpc, hid0, hkind] at hs
      rcases hs.1 with hd | ⟨hd, hk⟩
      · simp only [hd, hs.2]
        by_cases hq : fs.dest = Content.data 0 len
        · simp [hq]
        · simp [hq]
      · simp [hd, hs.2, hk]
    | osError => simp [Solo, hpc] at hs
  | _ => simp [W.finished, hpc] at hfin

/-- **C13_dryrun**: in dry-run mode nothing is touched and no call is issued. -/
theorem C13_dryrun (kind : Kind) (len : Nat) (pyc : Bool) (fl : List Fault) (fs : FS) :
    put kind len pyc true fl fs = (.ok, fs) := rfl

/-! ### two concurrent writers of the same module, any schedule, any faults -/

def fs0x : FS := { dirExists := true, dest := .old, tmp := fun _ => none }

/-- what a writer knows about its own temp file, whatever other writers do -/
def Local (w : W) (fs : FS) : Prop :=
  match w.pc with
  | .start => w.remaining = w.len
  | .mkstemp => w.remaining = w.len
  | .write => fs.tmp w.id = some (.data w.id (w.len - w.remaining)) ∧ 0 < w.remaining ∧ w.remaining ≤ w.len
  | .close => fs.tmp w.id = some (.data w.id w.len)
  | .rename => fs.tmp w.id = some (.data w.id w.len)
  | _ => True

/-- the destination is the previous content, absent, or some writer's *complete* text -/
def DestOK (prev : Content) (l : Nat → Nat) (fs : FS) : Prop :=
  fs.dest = prev ∨ fs.dest = .absent ∨ fs.dest = .data 0 (l 0) ∨ fs.dest = .data 1 (l 1)

theorem step_id_len (f : Fault) (w : W) (fs : FS) :
    (step f w fs).1.id = w.id ∧ (step f w fs).1.len = w.len := by
  unfold step
  cases w.pc <;> cases f <;> (try cases fs.tmp w.id) <;> (try cases fs.dest) <;>
    (try by_cases hd : fs.dirExists = true) <;> simp_all

theorem local_step (f : Fault) (w : W) (fs : FS) (h : Local w fs) : Local (step f w fs).1 (step f w fs).2 := by
  unfold step
  cases hpc : w.pc with
  | start =>
    simp only [Local, hpc] at h
    by_cases hd : fs.dirExists = true <;> cases f <;> simp [hd, Local, h]
  | mkstemp =>
    simp only [Local, hpc] at h
    by_cases hr : w.remaining = 0
    · cases f <;> simp [hr, Local, FS.setTmp, FS.log] <;> omega
    · have hl : ¬ w.len = 0 := by omega
      cases f <;> simp [hr, Local, FS.setTmp, FS.log, h, hl] <;> omega
  | write =>
    simp only [Local, hpc] at h
    cases f with
    | short j =>
      by_cases hr : w.remaining - min (j + 1) w.remaining = 0
      · simp [hr, Local, FS.setTmp, FS.log]
      · simp [hr, Local, FS.setTmp, FS.log]; omega
    | _ => simp [Local, FS.setTmp, FS.log]
  | close =>
    simp only [Local, hpc] at h
    cases f <;> simp [Local, FS.log, h]
  | rename =>
    by_cases hk : w.kind = .py ∧ w.pyCompile = true <;> cases f <;> simp [Local, hk]
  | cleanup => cases fs.tmp w.id <;> cases f <;> simp [Local]
  | compile => cases f <;> simp [Local]
  | rmmodule => cases fs.dest <;> cases f <;> simp [Local]
  | done r => simp [Local, hpc]

theorem step_tmp_other (f : Fault) (w : W) (fs : FS) (i : Nat) (hi : i ≠ w.id) :
    (step f w fs).2.tmp i = fs.tmp i := by
  unfold step
  cases w.pc <;> cases f <;> (try cases fs.tmp w.id) <;> (try cases fs.dest) <;>
    (try by_cases hd : fs.dirExists = true) <;> (try by_cases hr : w.remaining = 0) <;>
    simp_all [FS.setTmp, FS.log]

theorem local_other (f : Fault) (w w' : W) (fs : FS) (hi : w'.id ≠ w.id) (h : Local w' fs) :
    Local w' (step f w fs).2 := by
  have := step_tmp_other f w fs w'.id hi
  unfold Local at *
  cases hpc : w'.pc <;> simp only [hpc] at h ⊢ <;> first | trivial | (rw [this]; exact h) | exact h

theorem destOK_step (prev : Content) (l : Nat → Nat) (f : Fault) (w : W) (fs : FS)
    (hid : w.id = 0 ∨ w.id = 1)
    (hl : w.len = l w.id) (h : Local w fs) (hd : DestOK prev l fs) : DestOK prev l (step f w fs).2 := by
  unfold step
  cases hpc : w.pc with
  | rename =>
    simp only [Local, hpc] at h
    rcases hid with hid | hid <;> rw [hid] at hl h <;>
      cases f <;> simp [DestOK, FS.log, FS.setTmp, h, hl, hid] <;> exact hd
  | rmmodule =>
    cases hdest : fs.dest <;> cases f <;> simp_all [DestOK, FS.log]
  | start => by_cases hdd : fs.dirExists = true <;> cases f <;> simpa [hdd, DestOK, FS.log] using hd
  | mkstemp =>
    by_cases hr : w.remaining = 0 <;> cases f <;> simpa [hr, DestOK, FS.log, FS.setTmp] using hd
  | write =>
    cases f with
    | short j =>
      by_cases hr : w.remaining - min (j + 1) w.remaining = 0 <;> simpa [hr, DestOK, FS.log, FS.setTmp] using hd
    | _ => simpa [DestOK, FS.log, FS.setTmp] using hd
  | close => cases f <;> simpa [DestOK, FS.log] using hd
  | cleanup => cases fs.tmp w.id <;> cases f <;> simpa [DestOK, FS.log, FS.setTmp] using hd
  | compile => cases f <;> simpa [DestOK, FS.log] using hd
  | done r => simpa [DestOK] using hd

structure Inv2 (prev : Content) (l : Nat → Nat) (a b : W) (fs : FS) : Prop where
  la : Local a fs
  lb : Local b fs
  dest : DestOK prev l fs
  ida : a.id = 0
  idb : b.id = 1
  lena : a.len = l 0
  lenb : b.len = l 1

theorem inv2_stepA (prev : Content) (l : Nat → Nat) (f : Fault) (a b : W) (fs : FS) (h : Inv2 prev l a b fs) :
    Inv2 prev l (step f a fs).1 b (step f a fs).2 := by
  obtain ⟨i1, i2⟩ := step_id_len f a fs
  exact ⟨local_step f a fs h.la, local_other f a b fs (by rw [h.ida, h.idb]; decide) h.lb,
    destOK_step prev l f a fs (Or.inl h.ida) (by rw [h.ida]; exact h.lena) h.la h.dest,
    i1.trans h.ida, h.idb, i2.trans h.lena, h.lenb⟩

theorem inv2_stepB (prev : Content) (l : Nat → Nat) (f : Fault) (a b : W) (fs : FS) (h : Inv2 prev l a b fs) :
    Inv2 prev l a (step f b fs).1 (step f b fs).2 := by
  obtain ⟨i1, i2⟩ := step_id_len f b fs
  exact ⟨local_other f b a fs (by rw [h.ida, h.idb]; decide) h.la, local_step f b fs h.lb,
    destOK_step prev l f b fs (Or.inr h.idb) (by rw [h.idb]; exact h.lenb) h.lb h.dest,
    h.ida, i1.trans h.idb, h.lena, i2.trans h.lenb⟩

theorem inv2_runTwo (prev : Content) (l : Nat → Nat) (sched : List Bool) (fa fb : List Fault) (a b : W) (fs : FS)
    (h : Inv2 prev l a b fs) :
    Inv2 prev l (runTwo sched fa fb a b fs).1 (runTwo sched fa fb a b fs).2.1 (runTwo sched fa fb a b fs).2.2 := by
  induction sched generalizing fa fb a b fs with
  | nil => exact h
  | cons pick sched ih =>
    unfold runTwo
    cases pick
    · simp only [Bool.false_eq_true, if_false]
      split
      · exact ih _ _ _ _ _ h
      · split
        · cases fb with
          | nil => exact ih _ _ _ _ _ (inv2_stepB prev l _ a b fs h)
          | cons f fb => exact ih _ _ _ _ _ (inv2_stepB prev l _ a b fs h)
        · exact ih _ _ _ _ _ (inv2_stepB prev l _ a b fs h)
    · simp only [if_true]
      split
      · exact ih _ _ _ _ _ h
      · split
        · cases fa with
          | nil => exact ih _ _ _ _ _ (inv2_stepA prev l _ a b fs h)
          | cons f fa => exact ih _ _ _ _ _ (inv2_stepA prev l _ a b fs h)
        · exact ih _ _ _ _ _ (inv2_stepA prev l _ a b fs h)

/-- **C13_two_writers**: two `putData` calls for the same module, interleaved at system-call
granularity under *any* schedule and *any* fault scripts: at every point (every schedule prefix is
a schedule) the destination is its previous content, absent (only ever through the removal after a
failed byte-compilation), or the **complete** text of one of the writers — never a partial or
mixed file. -/
theorem C13_two_writers (k0 k1 : Kind) (l0 l1 : Nat) (p0 p1 : Bool) (sched : List Bool)
    (fa fb : List Fault) (fs : FS) :
    let r := runTwo sched fa fb (mkW 0 k0 l0 p0) (mkW 1 k1 l1 p1) fs
    r.2.2.dest = fs.dest ∨ r.2.2.dest = .absent ∨ r.2.2.dest = .data 0 l0 ∨ r.2.2.dest = .data 1 l1 := by
  intro r
  have h := inv2_runTwo fs.dest (fun i => if i = 0 then l0 else l1) sched fa fb
    (mkW 0 k0 l0 p0) (mkW 1 k1 l1 p1) fs
    ⟨by simp [Local, mkW], by simp [Local, mkW], Or.inl rfl, rfl, rfl, by simp [mkW], by simp [mkW]⟩
  rcases h.dest with hd | hd | hd | hd
  · exact Or.inl hd
  · exact Or.inr (Or.inl hd)
  · exact Or.inr (Or.inr (Or.inl (by simpa using hd)))
  · exact Or.inr (Or.inr (Or.inr (by simpa using hd)))

/-- non-vacuity: an actual interleaving in which writer 1 wins the final rename -/
example : (runTwo [true, true, false, false, true, false, true, false, true, false] [] []
    (mkW 0 .file 5) (mkW 1 .file 7) fs0x).2.2.dest = .data 1 7 := by decide

/-! ### witness: the code before the fix renames a partial file into place -/

def fs0 : FS := { dirExists := true, dest := .old, tmp := fun _ => none }

/-- **Witness (F20)**: with a single `os.write` whose return value is ignored, a short write
of 3 of 10 bytes ends with a *partial* destination and a successful return. -/
theorem C13_short_write_witness :
    let w0 := mkW 0 .file 10
    let s1 := stepOld .none w0 fs0            -- start (directory exists)
    let s2 := stepOld .none s1.1 s1.2         -- mkstemp
    let s3 := stepOld (.short 2) s2.1 s2.2    -- write: 3 of 10 bytes
    let s4 := stepOld .none s3.1 s3.2         -- close
    let s5 := stepOld .none s4.1 s4.2         -- rename
    s5.1.pc = .done .ok ∧ s5.2.dest = .data 0 3 := by decide

/-- the repaired code on the same script stores all 10 bytes -/
example : (put .file 10 true false [.none, .short 2, .short 0, .none] fs0).1 = .ok ∧
    (put .file 10 true false [.none, .short 2, .short 0, .none] fs0).2.dest = .data 0 10 := by decide

/-- non-vacuity of the fault hypotheses: an error at `rename` after two short writes -/
example : AtMostOne [.none, .short 2, .short 0, .none, .none, .error] := by simp [AtMostOne, NoErr]
example : (put .py 10 true false [.none, .short 2, .short 0, .none, .none, .error] fs0).1 = .writerError := by
  decide

end Pysmi.Writer
