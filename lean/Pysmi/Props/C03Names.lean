import Pysmi.Model.Names
/-!
# C03 — the customary renaming of symbols (hyphen to underscore)

`IntermediateCodeGen.transOpers` is `symbol.replace('-', '_')`: every key of the JSON document, every `name` member and every
reference to another symbol goes through it (since repair eb48f69 also the `name` of a type).  The property allows exactly
this renaming; what it must not do is merge two declared symbols or hide one.

* `C03_trans_no_hyphen`, `C03_trans_idempotent`, `C03_trans_length`, `C03_trans_only_hyphens` - the renaming touches hyphens
  only, position by position.
* `C03_trans_injective` - two names without an underscore (SMI identifiers proper: letters, digits, hyphens) that differ have
  different keys: no declared symbol is merged with another by the renaming.
* `C03_trans_collision_witness` - with underscores admitted (the lexer's `A-z` range lets them through) `a-b` and `a_b`
  do share a key: the hypothesis is needed.
-/
namespace Pysmi.Names

theorem C03_trans_no_hyphen (s : List Char) : '-' ∉ trans s := by
  unfold trans
  intro h
  obtain ⟨c, _, hc⟩ := List.mem_map.mp h
  by_cases h1 : c = '-'
  · simp [h1] at hc
  · simp [h1] at hc

theorem C03_trans_length (s : List Char) : (trans s).length = s.length := by
  simp [trans]

theorem C03_trans_idempotent (s : List Char) : trans (trans s) = trans s := by
  unfold trans
  rw [List.map_map]
  apply List.map_congr_left
  intro c _
  by_cases h1 : c = '-'
  · simp [h1]
  · simp [h1]

/-- position by position: a character that is no hyphen stays, a hyphen becomes an underscore -/
theorem C03_trans_only_hyphens (s : List Char) (i : Nat) (h : i < s.length) :
    (trans s)[i]'(by rw [C03_trans_length]; exact h) = if s[i] = '-' then '_' else s[i] := by
  simp [trans]

/-- a name that holds no hyphen is its own key -/
theorem C03_trans_fixed (s : List Char) (h : '-' ∉ s) : trans s = s := by
  induction s with
  | nil => rfl
  | cons c rest ih =>
    have hc : c ≠ '-' := fun hc => h (by simp [hc])
    have hr : '-' ∉ rest := fun hr => h (List.mem_cons_of_mem _ hr)
    simp only [trans, List.map_cons, hc, if_false] at *
    rw [ih hr]

/-- **C03_trans_injective**: names without an underscore that differ have different keys. -/
theorem C03_trans_injective (s t : List Char) (hs : '_' ∉ s) (ht : '_' ∉ t) (h : trans s = trans t) : s = t := by
  induction s generalizing t with
  | nil =>
    cases t with
    | nil => rfl
    | cons d rest => simp [trans] at h
  | cons c rest ih =>
    cases t with
    | nil => simp [trans] at h
    | cons d rest' =>
      simp only [trans, List.map_cons, List.cons.injEq] at h
      obtain ⟨h1, h2⟩ := h
      have hc : c ≠ '_' := fun hc => hs (by simp [hc])
      have hd : d ≠ '_' := fun hd => ht (by simp [hd])
      have hcd : c = d := by
        by_cases hc1 : c = '-'
        · by_cases hd1 : d = '-'
          · rw [hc1, hd1]
          · simp [hc1, hd1] at h1; exact absurd h1.symm hd
        · by_cases hd1 : d = '-'
          · simp [hc1, hd1] at h1; exact absurd h1 hc
          · simp [hc1, hd1] at h1; exact h1
      rw [hcd, ih rest' (fun hr => hs (List.mem_cons_of_mem _ hr)) (fun hr => ht (List.mem_cons_of_mem _ hr)) h2]

/-- ... and the hypothesis is needed -/
theorem C03_trans_collision_witness : trans "a-b".toList = trans "a_b".toList ∧ "a-b".toList ≠ "a_b".toList := by decide

/-- distinct declared names (none with an underscore) give distinct keys: the keys of a module are as many as its names -/
theorem C03_keys_nodup (names : List (List Char)) (hu : ∀ n ∈ names, '_' ∉ n) (hnd : names.Nodup) : (names.map trans).Nodup := by
  induction names with
  | nil => simp
  | cons n rest ih =>
    rw [List.map_cons, List.nodup_cons]
    rw [List.nodup_cons] at hnd
    refine ⟨?_, ih (fun m hm => hu m (List.mem_cons_of_mem _ hm)) hnd.2⟩
    intro hmem
    obtain ⟨m, hm, hmt⟩ := List.mem_map.mp hmem
    have : m = n := C03_trans_injective m n (hu m (List.mem_cons_of_mem _ hm)) (hu n (by simp)) hmt
    subst this
    exact hnd.1 hm

example : trans "My-Type-2".toList = "My_Type_2".toList := by decide
example : (["if-index".toList, "ifIndex".toList, "if-Index".toList].map trans).Nodup := by decide

end Pysmi.Names
