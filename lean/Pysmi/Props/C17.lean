import Pysmi.Model.Grammar
import Pysmi.Props.C17Tables
import Pysmi.Model.LexCfg
import Pysmi.Props.C02LR
import Pysmi.Props.C11
/-!
# C17 — grammar relaxations only add accepted inputs

* `C17_simulation_sound`: if every production of grammar `P` is simulated in `P'` (present, or a
  one-level expansion of a production of `P'`), then everything derivable in `P` is derivable in
  `P'` — for token strings of any length.
* `C17_monotone_*`: that simulation holds (checked by the kernel over the productions **regenerated
  from the source on every run**) from the strict SMIv2 grammar to every single relaxation, from each
  of those to the fully relaxed dialect, and along smiV2 → smiV1 → smiV1Relaxed.
* `C17_tree_derivable`: a tree the LR driver returns is a derivation in the grammar, so "accepted
  under the smaller dialect" implies "derivable in the larger one".
* `C17_option_order_irrelevant` / `C17_options_disjoint`: the class synthesis of `parserFactory` / `lexerFactory`
  (later options overwrite members of earlier ones) does not depend on the order of the keyword arguments, because
  in the regenerated option tables no member is replaced by two options.
* `C17_unknown_option`: the option tables of lexer and parser factories list the same nine names.
* `C17_lexer_monotone`: the SMIv1 keyword option changes the lexer's word tables only at `MAX`
  (forbidden → reserved) and `NetworkAddress` (identifier → reserved): every text that contains neither
  word is scanned to the same token list (or the same located error) by both lexers.
* `C17_accept_monotone`: a text `parse` accepts under the strict lexer and any LR tables whose grammar is
  simulated by `P'` is, scanned by the SMIv1-keyword lexer, still derivable from the start symbol in `P'`.
-/
namespace Pysmi.Grammar

section
variable {σ : Type}

theorem rewrites_trans {P : Prods σ} {a b c : List σ} (h1 : Rewrites P a b) (h2 : Rewrites P b c) : Rewrites P a c := by
  induction h1 with
  | refl _ => exact h2
  | step hm _ ih => exact .step hm (ih h2)

theorem rewrites_context {P : Prods σ} {a b : List σ} (l r : List σ) (h : Rewrites P a b) :
    Rewrites P (l ++ a ++ r) (l ++ b ++ r) := by
  induction h with
  | refl _ => exact .refl _
  | @step l' r' A g b hm _ ih =>
    have e1 : l ++ (l' ++ [A] ++ r') ++ r = (l ++ l') ++ [A] ++ (r' ++ r) := by simp [List.append_assoc]
    have e2 : l ++ (l' ++ g ++ r') ++ r = (l ++ l') ++ g ++ (r' ++ r) := by simp [List.append_assoc]
    rw [e1]
    refine .step hm ?_
    rw [← e2]; exact ih

theorem rewrites_single {P : Prods σ} {A : σ} {g : List σ} (h : (A, g) ∈ P) : Rewrites P [A] g := by
  have := Rewrites.step (P := P) (l := []) (r := []) (b := g) h (by simpa using Rewrites.refl g)
  simpa using this

theorem rewrites_append {P : Prods σ} {a a' b b' : List σ} (h1 : Rewrites P a a') (h2 : Rewrites P b b') :
    Rewrites P (a ++ b) (a' ++ b') := by
  have s1 : Rewrites P (a ++ b) (a' ++ b) := by simpa using rewrites_context [] b h1
  have s2 : Rewrites P (a' ++ b) (a' ++ b') := by simpa using rewrites_context a' [] h2
  exact rewrites_trans s1 s2

variable [DecidableEq σ]

/-- `expand1` is sound: a one-level expansion is a derivation -/
theorem expand1_sound (P : Prods σ) : ∀ (b a : List σ), expand1 P b a = true → Rewrites P b a := by
  intro b
  induction b with
  | nil =>
    intro a h
    simp only [expand1, List.isEmpty_iff] at h
    subst h; exact .refl _
  | cons B b ih =>
    intro a h
    unfold expand1 at h
    rcases Bool.or_eq_true_iff.mp h with h | h
    · cases a with
      | nil => simp at h
      | cons x a' =>
        simp only [Bool.and_eq_true, beq_iff_eq] at h
        obtain ⟨rfl, h2⟩ := h
        have := rewrites_append (Rewrites.refl (P := P) [x]) (ih a' h2)
        simpa using this
    · obtain ⟨pr, hpr, hc⟩ := List.any_eq_true.mp h
      simp only [Bool.and_eq_true, beq_iff_eq] at hc
      obtain ⟨⟨hB, hpre⟩, hrest⟩ := hc
      have hsplit : a = pr.2 ++ a.drop pr.2.length := by
        have := List.isPrefixOf_iff_prefix.mp hpre
        obtain ⟨t, ht⟩ := this
        rw [← ht]; simp
      have h1 : Rewrites P [B] pr.2 := by
        apply rewrites_single
        rw [← hB]; exact hpr
      have := rewrites_append h1 (ih _ hrest)
      rw [← hsplit] at this
      simpa using this

theorem simProd_sound (P' : Prods σ) (pr : σ × List σ) (h : simProd P' pr = true) : Rewrites P' [pr.1] pr.2 := by
  unfold simProd at h
  rcases Bool.or_eq_true_iff.mp h with h | h
  · obtain ⟨q, hq, hc⟩ := List.any_eq_true.mp h
    simp only [Bool.and_eq_true, beq_iff_eq] at hc
    exact rewrites_single (by rw [← hc.1, ← hc.2]; exact hq)
  · obtain ⟨q, hq, hc⟩ := List.any_eq_true.mp h
    simp only [Bool.and_eq_true, beq_iff_eq] at hc
    have h1 : Rewrites P' [pr.1] q.2 := rewrites_single (by rw [← hc.1]; exact hq)
    exact rewrites_trans h1 (expand1_sound P' _ _ hc.2)

/-- **C17_simulation_sound**: simulation of productions implies inclusion of everything derivable. -/
theorem C17_simulation_sound (P P' : Prods σ) (h : simAll P P' = true) (a b : List σ) (hd : Rewrites P a b) :
    Rewrites P' a b := by
  induction hd with
  | refl _ => exact .refl _
  | @step l r A g b hm _ ih =>
    have hs : simProd P' (A, g) = true := (List.all_eq_true.mp h) (A, g) hm
    have h1 := rewrites_context l r (simProd_sound P' (A, g) hs)
    exact rewrites_trans h1 ih

/-! renaming symbols preserves simulation (no injectivity needed: the check only uses equalities positively) -/

variable {τ : Type} [DecidableEq τ] (f : σ → τ)

omit [DecidableEq σ] [DecidableEq τ] in
theorem mem_mapProds {P : Prods σ} {pr : σ × List σ} (h : pr ∈ P) : (f pr.1, pr.2.map f) ∈ mapProds f P :=
  List.mem_map.mpr ⟨pr, h, rfl⟩

theorem expand1_map (P : Prods σ) : ∀ (b a : List σ), expand1 P b a = true →
    expand1 (mapProds f P) (b.map f) (a.map f) = true := by
  intro b
  induction b with
  | nil =>
    intro a h
    simp only [expand1, List.isEmpty_iff] at h
    subst h; simp [expand1]
  | cons B b ih =>
    intro a h
    unfold expand1 at h
    simp only [List.map_cons]
    unfold expand1
    rcases Bool.or_eq_true_iff.mp h with h | h
    · cases a with
      | nil => simp at h
      | cons x a' =>
        simp only [Bool.and_eq_true, beq_iff_eq] at h
        obtain ⟨rfl, h2⟩ := h
        simp [ih a' h2]
    · obtain ⟨pr, hpr, hc⟩ := List.any_eq_true.mp h
      simp only [Bool.and_eq_true, beq_iff_eq] at hc
      obtain ⟨⟨hB, hpre⟩, hrest⟩ := hc
      apply Bool.or_eq_true_iff.mpr; right
      apply List.any_eq_true.mpr
      refine ⟨_, mem_mapProds f hpr, ?_⟩
      simp only [Bool.and_eq_true, beq_iff_eq]
      refine ⟨⟨by rw [hB], ?_⟩, ?_⟩
      · obtain ⟨t, ht⟩ := List.isPrefixOf_iff_prefix.mp hpre
        apply List.isPrefixOf_iff_prefix.mpr
        exact ⟨t.map f, by rw [← ht]; simp⟩
      · have := ih _ hrest
        simpa [List.map_drop] using this

theorem simProd_map (P' : Prods σ) (pr : σ × List σ) (h : simProd P' pr = true) :
    simProd (mapProds f P') (f pr.1, pr.2.map f) = true := by
  unfold simProd at h ⊢
  rcases Bool.or_eq_true_iff.mp h with h | h
  · obtain ⟨q, hq, hc⟩ := List.any_eq_true.mp h
    simp only [Bool.and_eq_true, beq_iff_eq] at hc
    apply Bool.or_eq_true_iff.mpr; left
    apply List.any_eq_true.mpr
    refine ⟨_, mem_mapProds f hq, ?_⟩
    simp only [Bool.and_eq_true, beq_iff_eq]
    exact ⟨by rw [hc.1], by rw [hc.2]⟩
  · obtain ⟨q, hq, hc⟩ := List.any_eq_true.mp h
    simp only [Bool.and_eq_true, beq_iff_eq] at hc
    apply Bool.or_eq_true_iff.mpr; right
    apply List.any_eq_true.mpr
    refine ⟨_, mem_mapProds f hq, ?_⟩
    simp only [Bool.and_eq_true, beq_iff_eq]
    exact ⟨by rw [hc.1], expand1_map f P' _ _ hc.2⟩

/-- simulation between interned grammars carries over to the grammars over symbol names -/
theorem simAll_map (P P' : Prods σ) (h : simAll P P' = true) : simAll (mapProds f P) (mapProds f P') = true := by
  unfold simAll at h ⊢
  apply List.all_eq_true.mpr
  intro x hx
  obtain ⟨pr, hpr, rfl⟩ := List.mem_map.mp hx
  exact simProd_map f P' pr (List.all_eq_true.mp h pr hpr)

end

end Pysmi.Grammar

namespace Pysmi.LR
open Pysmi.Grammar

def prodsOf (T : Tables) : Prods Sym := T.prods.toList.map (fun r => (r.lhs, r.rhs))

mutual
theorem tree_derivable (T : Tables) : ∀ (t : Tree), t.Valid T → Rewrites (prodsOf T) [t.sym] (t.frontier.map (·.ty))
  | .leaf tk, _ => by simpa [Tree.sym, Tree.frontier] using Rewrites.refl (P := prodsOf T) [tk.ty]
  | .node p l ks, h => by
    simp only [Tree.Valid] at h
    obtain ⟨⟨pr, hpr, hl, hr⟩, hks⟩ := h
    have hm : (l, ks.map Tree.sym) ∈ prodsOf T := by
      simp only [prodsOf, List.mem_map]
      refine ⟨pr, ?_, by rw [hl, hr]⟩
      exact Array.mem_toList_iff.mpr (Array.mem_of_getElem? hpr)
    have h1 : Rewrites (prodsOf T) [l] (ks.map Tree.sym) := rewrites_single hm
    have h2 := treesL_derivable T ks hks
    simpa [Tree.sym, Tree.frontier] using rewrites_trans h1 h2
theorem treesL_derivable (T : Tables) : ∀ (ks : List Tree), ValidL T ks →
    Rewrites (prodsOf T) (ks.map Tree.sym) ((frontierL ks).map (·.ty))
  | [], _ => by simpa [frontierL] using Rewrites.refl (P := prodsOf T) []
  | k :: ks, h => by
    simp only [ValidL] at h
    have h1 := tree_derivable T k h.1
    have h2 := treesL_derivable T ks h.2
    have := rewrites_append h1 h2
    simpa [frontierL] using this
end

/-- **C17_tree_derivable**: what the LR driver accepts (with any tables for grammar `T.prods`) is derivable
from the start symbol in that grammar; with `C17_simulation_sound` it is then derivable in every grammar
that simulates it. -/
theorem C17_tree_derivable (T : Tables) (fuel : Nat) (inp : List Token) (t : Tree) (h : run T fuel [] inp = .ok t)
    (P' : Prods Sym) (hsim : simAll (prodsOf T) P' = true) : Rewrites P' [T.start] (inp.map (·.ty)) := by
  obtain ⟨hv, hs, hf⟩ := C02_lr_sound T fuel inp t h
  have := tree_derivable T t hv
  rw [hs, hf] at this
  exact C17_simulation_sound _ _ hsim _ _ this

end Pysmi.LR



namespace Pysmi.Generated.Grammar
open Pysmi.Grammar

/-- the name of an interned symbol -/
def symName (i : Nat) : String := symTable.getD i ""

/-- the grammar over symbol names of an interned production list -/
def named (P : Prods Nat) : Prods String := mapProds symName P

/-! ### the simulation, checked by the kernel on the productions regenerated from the source -/


/-- **C17_monotone_single**: from the strict SMIv2 grammar to the grammar with any single relaxation switched on
(over symbol names): everything derivable stays derivable. -/
theorem C17_monotone_single (a b : List String) :
    (Rewrites (named nprods_smiV2) a b → Rewrites (named nprods_supportSmiV1Keywords) a b) ∧
    (Rewrites (named nprods_smiV2) a b → Rewrites (named nprods_commaAtTheEndOfImport) a b) ∧
    (Rewrites (named nprods_smiV2) a b → Rewrites (named nprods_commaAtTheEndOfSequence) a b) ∧
    (Rewrites (named nprods_smiV2) a b → Rewrites (named nprods_mixOfCommasAndSpaces) a b) ∧
    (Rewrites (named nprods_smiV2) a b → Rewrites (named nprods_uppercaseIdentifier) a b) ∧
    (Rewrites (named nprods_smiV2) a b → Rewrites (named nprods_lowcaseIdentifier) a b) ∧
    (Rewrites (named nprods_smiV2) a b → Rewrites (named nprods_curlyBracesAroundEnterpriseInTrap) a b) ∧
    (Rewrites (named nprods_smiV2) a b → Rewrites (named nprods_noCells) a b) :=
  ⟨C17_simulation_sound _ _ (simAll_map symName _ _ sim_smiV2_supportSmiV1Keywords) a b,
   C17_simulation_sound _ _ (simAll_map symName _ _ sim_smiV2_commaAtTheEndOfImport) a b,
   C17_simulation_sound _ _ (simAll_map symName _ _ sim_smiV2_commaAtTheEndOfSequence) a b,
   C17_simulation_sound _ _ (simAll_map symName _ _ sim_smiV2_mixOfCommasAndSpaces) a b,
   C17_simulation_sound _ _ (simAll_map symName _ _ sim_smiV2_uppercaseIdentifier) a b,
   C17_simulation_sound _ _ (simAll_map symName _ _ sim_smiV2_lowcaseIdentifier) a b,
   C17_simulation_sound _ _ (simAll_map symName _ _ sim_smiV2_curlyBracesAroundEnterpriseInTrap) a b,
   C17_simulation_sound _ _ (simAll_map symName _ _ sim_smiV2_noCells) a b⟩

/-- **C17_monotone_to_relaxed**: from any single relaxation to all of them. -/
theorem C17_monotone_to_relaxed (a b : List String) :
    (Rewrites (named nprods_supportSmiV1Keywords) a b → Rewrites (named nprods_smiV1Relaxed) a b) ∧
    (Rewrites (named nprods_commaAtTheEndOfImport) a b → Rewrites (named nprods_smiV1Relaxed) a b) ∧
    (Rewrites (named nprods_commaAtTheEndOfSequence) a b → Rewrites (named nprods_smiV1Relaxed) a b) ∧
    (Rewrites (named nprods_mixOfCommasAndSpaces) a b → Rewrites (named nprods_smiV1Relaxed) a b) ∧
    (Rewrites (named nprods_uppercaseIdentifier) a b → Rewrites (named nprods_smiV1Relaxed) a b) ∧
    (Rewrites (named nprods_lowcaseIdentifier) a b → Rewrites (named nprods_smiV1Relaxed) a b) ∧
    (Rewrites (named nprods_curlyBracesAroundEnterpriseInTrap) a b → Rewrites (named nprods_smiV1Relaxed) a b) ∧
    (Rewrites (named nprods_noCells) a b → Rewrites (named nprods_smiV1Relaxed) a b) :=
  ⟨C17_simulation_sound _ _ (simAll_map symName _ _ sim_supportSmiV1Keywords_smiV1Relaxed) a b,
   C17_simulation_sound _ _ (simAll_map symName _ _ sim_commaAtTheEndOfImport_smiV1Relaxed) a b,
   C17_simulation_sound _ _ (simAll_map symName _ _ sim_commaAtTheEndOfSequence_smiV1Relaxed) a b,
   C17_simulation_sound _ _ (simAll_map symName _ _ sim_mixOfCommasAndSpaces_smiV1Relaxed) a b,
   C17_simulation_sound _ _ (simAll_map symName _ _ sim_uppercaseIdentifier_smiV1Relaxed) a b,
   C17_simulation_sound _ _ (simAll_map symName _ _ sim_lowcaseIdentifier_smiV1Relaxed) a b,
   C17_simulation_sound _ _ (simAll_map symName _ _ sim_curlyBracesAroundEnterpriseInTrap_smiV1Relaxed) a b,
   C17_simulation_sound _ _ (simAll_map symName _ _ sim_noCells_smiV1Relaxed) a b⟩

/-- **C17_monotone_dialects**: along the shipped dialects smiV2 ⊆ smiV1 ⊆ smiV1Relaxed. -/
theorem C17_monotone_dialects (a b : List String) :
    (Rewrites (named nprods_smiV2) a b → Rewrites (named nprods_smiV1) a b) ∧
    (Rewrites (named nprods_smiV1) a b → Rewrites (named nprods_smiV1Relaxed) a b) :=
  ⟨C17_simulation_sound _ _ (simAll_map symName _ _ sim_smiV2_smiV1) a b,
   C17_simulation_sound _ _ (simAll_map symName _ _ sim_smiV1_smiV1Relaxed) a b⟩

/-- **C17_unknown_option**: both factories know exactly the same option names (anything else is rejected with
the package error by the `not in relaxedGrammar` test of either factory). -/
theorem C17_unknown_option : parserOptions = lexerOptions := by decide +kernel

end Pysmi.Generated.Grammar

namespace Pysmi.Grammar

def DisjointTbl (tbl : List (String × List String)) : Prop :=
  ∀ e1 ∈ tbl, ∀ e2 ∈ tbl, ∀ f ∈ e1.2, f ∈ e2.2 → e1.1 = e2.1

instance (tbl : List (String × List String)) : Decidable (DisjointTbl tbl) := by unfold DisjointTbl; infer_instance

theorem lists_mem {tbl : List (String × List String)} {o f : String} (h : lists tbl o f = true) :
    ∃ fs, (o, fs) ∈ tbl ∧ f ∈ fs := by
  unfold lists at h
  cases hl : tbl.lookup o with
  | none => simp [hl] at h
  | some fs =>
    simp only [hl] at h
    refine ⟨fs, ?_, by simpa using h⟩
    clear h
    induction tbl with
    | nil => simp at hl
    | cons e t ih =>
      obtain ⟨k, v⟩ := e
      simp only [List.lookup_cons] at hl
      by_cases hk : o == k
      · simp only [hk] at hl
        have : o = k := by simpa using hk
        subst this; cases hl; simp
      · have hk' : (o == k) = false := by simpa using hk
        simp only [hk'] at hl
        exact List.mem_cons_of_mem _ (ih hl)

theorem lists_unique {tbl : List (String × List String)} (hd : DisjointTbl tbl) {o1 o2 f : String}
    (h1 : lists tbl o1 f = true) (h2 : lists tbl o2 f = true) : o1 = o2 := by
  obtain ⟨fs1, m1, f1⟩ := lists_mem h1
  obtain ⟨fs2, m2, f2⟩ := lists_mem h2
  exact hd _ m1 _ m2 f f1 f2

theorem foldl_synthStep (tbl : List (String × List String)) (f : String) : ∀ (opts : List String) (acc : String → Option String),
    (opts.foldl (synthStep tbl) acc) f =
      match opts.reverse.find? (fun o => lists tbl o f) with
      | some o => some o
      | none => acc f := by
  intro opts
  induction opts with
  | nil => intro acc; rfl
  | cons o opts ih =>
    intro acc
    simp only [List.foldl_cons, List.reverse_cons, List.find?_append]
    rw [ih]
    cases opts.reverse.find? (fun o => lists tbl o f) with
    | some o' => rfl
    | none =>
      simp only [Option.none_or, List.find?_cons, List.find?_nil, synthStep]
      cases lists tbl o f <;> rfl

/-- **C17_option_order_irrelevant**: when no member is replaced by two options, the synthesised class does not
depend on the order (or repetition) in which the same options are switched on. -/
theorem C17_option_order_irrelevant (tbl : List (String × List String)) (hd : DisjointTbl tbl)
    (opts opts' : List String) (hsame : ∀ o, o ∈ opts ↔ o ∈ opts') : synth tbl opts = synth tbl opts' := by
  funext f
  unfold synth
  rw [foldl_synthStep, foldl_synthStep]
  cases h1 : opts.reverse.find? (fun o => lists tbl o f) with
  | none =>
    cases h2 : opts'.reverse.find? (fun o => lists tbl o f) with
    | none => rfl
    | some b =>
      exfalso
      have hb := List.find?_some h2
      have hm : b ∈ opts := (hsame b).mpr (List.mem_reverse.mp (List.mem_of_find?_eq_some h2))
      have := List.find?_eq_none.mp h1 b (List.mem_reverse.mpr hm)
      exact this hb
  | some a =>
    have ha := List.find?_some h1
    cases h2 : opts'.reverse.find? (fun o => lists tbl o f) with
    | none =>
      exfalso
      have hm : a ∈ opts' := (hsame a).mp (List.mem_reverse.mp (List.mem_of_find?_eq_some h1))
      have := List.find?_eq_none.mp h2 a (List.mem_reverse.mpr hm)
      exact this ha
    | some b =>
      have hb := List.find?_some h2
      simp only [lists_unique hd ha hb]

/-! ### the factories' keyword handling -/

theorem factory_filter (tbl : List (String × List String)) (kw : List (String × Bool)) :
    factory tbl (kw.filter (·.2)) = factory tbl kw := by
  unfold factory
  rw [List.find?_filter, List.filter_filter]
  have h1 : (fun (a : String × Bool) => decide (a.2 = true ∧ (a.2 && (tbl.lookup a.1).isNone) = true)) =
      (fun p => p.2 && (tbl.lookup p.1).isNone) := by
    funext a; cases a.2 <;> simp
  have h2 : (fun (a : String × Bool) => a.2 && a.2) = (fun a => a.2) := by funext a; cases a.2 <;> rfl
  rw [h1, h2]

/-- **C17_false_option_ignored**: an option passed as false - known or not, anywhere among the keyword arguments - is an
option not passed: the same class, or the same error. -/
theorem C17_false_option_ignored (tbl : List (String × List String)) (kw1 kw2 : List (String × Bool)) (o : String) :
    factory tbl (kw1 ++ (o, false) :: kw2) = factory tbl (kw1 ++ kw2) := by
  rw [← factory_filter tbl (kw1 ++ (o, false) :: kw2), ← factory_filter tbl (kw1 ++ kw2)]
  simp [List.filter_append, List.filter_cons]

/-- **C17_unknown_rejected**: an option that is switched on and not in the table ends the call with an error naming an
unknown option. -/
theorem C17_unknown_rejected (tbl : List (String × List String)) (kw : List (String × Bool)) (o : String)
    (hm : (o, true) ∈ kw) (hu : tbl.lookup o = none) : ∃ e, factory tbl kw = .error e ∧ tbl.lookup e = none := by
  unfold factory
  cases h : kw.find? (fun p => p.2 && (tbl.lookup p.1).isNone) with
  | none =>
    exfalso
    have := List.find?_eq_none.mp h (o, true) hm
    simp [hu] at this
  | some p =>
    refine ⟨p.1, rfl, ?_⟩
    have := List.find?_some h
    simp only [Bool.and_eq_true, Option.isNone_iff_eq_none] at this
    exact this.2

/-- **C17_known_accepted**: when every option that is switched on is in the table the call succeeds, and the class is the
one synthesised from exactly those options in keyword order. -/
theorem C17_known_accepted (tbl : List (String × List String)) (kw : List (String × Bool))
    (hk : ∀ p ∈ kw, p.2 = true → (tbl.lookup p.1).isSome = true) :
    factory tbl kw = .ok (synth tbl ((kw.filter (·.2)).map (·.1))) := by
  unfold factory
  cases h : kw.find? (fun p => p.2 && (tbl.lookup p.1).isNone) with
  | none => rfl
  | some p =>
    exfalso
    have hp := List.find?_some h
    have hm := List.mem_of_find?_eq_some h
    simp only [Bool.and_eq_true, Option.isNone_iff_eq_none] at hp
    have := hk p hm hp.1
    rw [hp.2] at this
    cases this

/-- **C17_factory_order_irrelevant**: two calls that switch on the same options - in any order, with any options passed as
false in between - build the same class (no member being replaced by two options). -/
theorem C17_factory_order_irrelevant (tbl : List (String × List String)) (hd : DisjointTbl tbl)
    (kw kw' : List (String × Bool)) (hsame : ∀ o, (o, true) ∈ kw ↔ (o, true) ∈ kw')
    (c c' : String → Option String) (h : factory tbl kw = .ok c) (h' : factory tbl kw' = .ok c') : c = c' := by
  unfold factory at h h'
  cases hf : kw.find? (fun p => p.2 && (tbl.lookup p.1).isNone) with
  | some p => rw [hf] at h; cases h
  | none =>
    cases hf' : kw'.find? (fun p => p.2 && (tbl.lookup p.1).isNone) with
    | some p => rw [hf'] at h'; cases h'
    | none =>
      rw [hf] at h; rw [hf'] at h'
      cases h; cases h'
      apply C17_option_order_irrelevant tbl hd
      intro o
      simp only [List.mem_map, List.mem_filter]
      constructor
      · rintro ⟨⟨a, b⟩, ⟨hm, hb⟩, rfl⟩
        simp only at hb; subst hb
        exact ⟨(a, true), ⟨(hsame a).mp hm, rfl⟩, rfl⟩
      · rintro ⟨⟨a, b⟩, ⟨hm, hb⟩, rfl⟩
        simp only at hb; subst hb
        exact ⟨(a, true), ⟨(hsame a).mpr hm, rfl⟩, rfl⟩

end Pysmi.Grammar

namespace Pysmi.Generated.Grammar
open Pysmi.Grammar
/-- **C17_options_disjoint**: in the tables regenerated from the source no grammar function and no lexer member is
replaced by two different options. -/
theorem C17_options_disjoint : DisjointTbl optionFuncs ∧ DisjointTbl lexerOptionMembers := by decide +kernel

theorem C17_parser_order_irrelevant (opts opts' : List String) (h : ∀ o, o ∈ opts ↔ o ∈ opts') :
    synth optionFuncs opts = synth optionFuncs opts' ∧ synth lexerOptionMembers opts = synth lexerOptionMembers opts' :=
  ⟨C17_option_order_irrelevant _ C17_options_disjoint.1 _ _ h, C17_option_order_irrelevant _ C17_options_disjoint.2 _ _ h⟩

example : synth optionFuncs ["mixOfCommasAndSpaces", "noCells"] "p_enumItems" = some "mixOfCommasAndSpaces" := by decide +kernel

/-- both factories, on the regenerated tables: options passed as false change nothing -/
theorem C17_factories_false_ignored (kw1 kw2 : List (String × Bool)) (o : String) :
    factory optionFuncs (kw1 ++ (o, false) :: kw2) = factory optionFuncs (kw1 ++ kw2) ∧
    factory lexerOptionMembers (kw1 ++ (o, false) :: kw2) = factory lexerOptionMembers (kw1 ++ kw2) :=
  ⟨C17_false_option_ignored _ _ _ _, C17_false_option_ignored _ _ _ _⟩

example : (match factory optionFuncs [("noCells", true), ("bogus", false), ("supportIndex", false)] with
           | .ok c => c "p_CreationPart" | .error _ => none) = some "noCells" := by decide +kernel
example : (match factory optionFuncs [("noCells", true), ("bogus", true)] with | .ok _ => "" | .error e => e) = "bogus" := by decide +kernel
end Pysmi.Generated.Grammar

namespace Pysmi.Lexer

theorem step_congr (cfg cfg' : Cfg) (st : LexState) (line : Nat) (s : Str)
    (h32 : cfg.u32 = cfg'.u32) (h64 : cfg.u64 = cfg'.u64) (hm : cfg.macroErrorRule = cfg'.macroErrorRule)
    (hU : ∀ n, matchUpper s = some n → cfg.forbidden.contains (s.take n) = cfg'.forbidden.contains (s.take n) ∧
        cfg.reserved.find? (·.1 == s.take n) = cfg'.reserved.find? (·.1 == s.take n)) :
    step cfg st line s = step cfg' st line s := by
  have e1 : classifyNumber cfg = classifyNumber cfg' := by funext v; simp [classifyNumber, h32, h64]
  cases hmu : matchUpper s with
  | none => unfold step; simp only [hmu, e1, hm]
  | some n =>
    obtain ⟨a, b⟩ := hU n hmu
    unfold step; simp only [hmu, hm, a, b]

/-- no suffix of the text starts with one of the words `ws` (as the longest upper-case-identifier match) -/
def avoids (ws : List Str) : Str → Bool
  | [] => true
  | c :: cs => (match matchUpper (c :: cs) with
      | some n => !ws.contains ((c :: cs).take n)
      | none => true) && avoids ws cs

theorem avoids_drop (ws : List Str) : ∀ (k : Nat) (s : Str), avoids ws s = true → avoids ws (s.drop k) = true
  | 0, s, h => by simpa using h
  | k + 1, [], h => by simpa using h
  | k + 1, c :: cs, h => by
    simp only [List.drop_succ_cons]
    apply avoids_drop ws k cs
    unfold avoids at h
    exact (Bool.and_eq_true_iff.mp h).2

/-- the two configurations treat every word outside `ws` alike -/
structure AgreeOff (ws : List Str) (cfg cfg' : Cfg) : Prop where
  u32 : cfg.u32 = cfg'.u32
  u64 : cfg.u64 = cfg'.u64
  mer : cfg.macroErrorRule = cfg'.macroErrorRule
  forb : ∀ w, ws.contains w = false → cfg.forbidden.contains w = cfg'.forbidden.contains w
  res : ∀ w, ws.contains w = false → cfg.reserved.find? (·.1 == w) = cfg'.reserved.find? (·.1 == w)

theorem lexLoop_agree (ws : List Str) (cfg cfg' : Cfg) (h : AgreeOff ws cfg cfg') :
    ∀ (fuel : Nat) (st : LexState) (line : Nat) (s : Str) (acc : List Tok), avoids ws s = true →
      lexLoop cfg fuel st line s acc = lexLoop cfg' fuel st line s acc := by
  intro fuel
  induction fuel with
  | zero => intro st line s acc _; simp [lexLoop]
  | succ fuel ih =>
    intro st line s acc hav
    cases s with
    | nil => simp [lexLoop]
    | cons c cs =>
      have hs : step cfg st line (c :: cs) = step cfg' st line (c :: cs) := by
        apply step_congr _ _ _ _ _ h.u32 h.u64 h.mer
        intro n hn
        unfold avoids at hav
        have h1 := (Bool.and_eq_true_iff.mp hav).1
        simp only [hn] at h1
        have h2 : ws.contains ((c :: cs).take n) = false := by simpa using h1
        exact ⟨h.forb _ h2, h.res _ h2⟩
      rw [lexLoop, lexLoop, hs]
      cases step cfg' st line (c :: cs) with
      | err k => rfl
      | tok t n next lines => exact ih _ _ _ _ (avoids_drop ws _ _ hav)
      | skip n next lines => exact ih _ _ _ _ (avoids_drop ws _ _ hav)

/-- find? with the entries of keys `ws` removed is the same for a key outside `ws` -/
theorem find_filter (ws : List Str) (w : Str) (hw : ws.contains w = false) :
    ∀ (l : List (Str × String)), (l.filter (fun e => !ws.contains e.1)).find? (·.1 == w) = l.find? (·.1 == w)
  | [] => rfl
  | e :: l => by
    by_cases he : ws.contains e.1 = true
    · have hne : (e.1 == w) = false := by
        apply beq_false_of_ne
        intro heq; rw [heq] at he; rw [he] at hw; cases hw
      simp only [List.filter_cons, he, Bool.not_true, List.find?_cons, hne]
      exact find_filter ws w hw l
    · have he' : ws.contains e.1 = false := by simpa using he
      simp only [List.filter_cons, he', Bool.not_false, if_true, List.find?_cons]
      cases (e.1 == w)
      · exact find_filter ws w hw l
      · rfl

theorem contains_filter (ws : List Str) (w : Str) (hw : ws.contains w = false) :
    ∀ (l : List Str), (l.filter (fun e => !ws.contains e)).contains w = l.contains w
  | [] => rfl
  | e :: l => by
    by_cases he : ws.contains e = true
    · have hne : (w == e) = false := by
        apply beq_false_of_ne
        intro heq; rw [← heq] at he; rw [he] at hw; cases hw
      simp only [List.filter_cons, he, Bool.not_true, List.contains_cons, hne, Bool.false_or]
      exact contains_filter ws w hw l
    · have he' : ws.contains e = false := by simpa using he
      simp only [List.filter_cons, he', Bool.not_false, if_true, List.contains_cons]
      rw [contains_filter ws w hw l]

def v1Words : List Str := ["MAX".toList, "NetworkAddress".toList]

theorem tables_v1_v2 :
    cfgV1.reserved.filter (fun e => !v1Words.contains e.1) = cfgV2.reserved.filter (fun e => !v1Words.contains e.1) ∧
    cfgV1.forbidden.filter (fun e => !v1Words.contains e) = cfgV2.forbidden.filter (fun e => !v1Words.contains e) := by
  decide +kernel

theorem agree_v2_v1 : AgreeOff v1Words cfgV2 cfgV1 where
  u32 := rfl
  u64 := rfl
  mer := rfl
  forb w hw := by
    rw [← contains_filter v1Words w hw cfgV2.forbidden, ← contains_filter v1Words w hw cfgV1.forbidden, tables_v1_v2.2]
  res w hw := by
    rw [← find_filter v1Words w hw cfgV2.reserved, ← find_filter v1Words w hw cfgV1.reserved, tables_v1_v2.1]

theorem collect_agree (ws : List Str) (cfg cfg' : Cfg) (h : AgreeOff ws cfg cfg') :
    ∀ (fuel : Nat) (st : LexState) (line : Nat) (s : Str) (acc : List Tok), avoids ws s = true →
      Pysmi.LR.collect cfg fuel st line s acc = Pysmi.LR.collect cfg' fuel st line s acc := by
  intro fuel
  induction fuel with
  | zero => intro st line s acc _; simp [Pysmi.LR.collect]
  | succ fuel ih =>
    intro st line s acc hav
    cases s with
    | nil => simp [Pysmi.LR.collect]
    | cons c cs =>
      have hs : step cfg st line (c :: cs) = step cfg' st line (c :: cs) := by
        apply step_congr _ _ _ _ _ h.u32 h.u64 h.mer
        intro n hn
        unfold avoids at hav
        have h1 := (Bool.and_eq_true_iff.mp hav).1
        simp only [hn] at h1
        have h2 : ws.contains ((c :: cs).take n) = false := by simpa using h1
        exact ⟨h.forb _ h2, h.res _ h2⟩
      rw [Pysmi.LR.collect, Pysmi.LR.collect, hs]
      cases step cfg' st line (c :: cs) with
      | err k => rfl
      | tok t n next lines => exact ih _ _ _ _ (avoids_drop ws _ _ hav)
      | skip n next lines => exact ih _ _ _ _ (avoids_drop ws _ _ hav)

/-- **C17_lexer_monotone**: a text that nowhere contains the two words the SMIv1-keyword lexer adds (`MAX`,
`NetworkAddress`) gives the same outcome - token list or located error - under both lexers; the tables are the
regenerated ones, compared by the kernel. -/
theorem C17_lexer_monotone (s : Str) (h : avoids v1Words s = true) : lexAll cfgV1 s = lexAll cfgV2 s := by
  unfold lexAll
  rw [lexLoop_agree v1Words cfgV2 cfgV1 agree_v2_v1 _ _ _ _ _ h]

/-- … and with the same LR tables and actions the whole `parse` is the same -/
theorem C17_parse_same_lexer_option (T : Pysmi.LR.Tables) (A : Pysmi.LR.Actions) (s : Str) (h : avoids v1Words s = true) :
    Pysmi.LR.parse cfgV1 T A s = Pysmi.LR.parse cfgV2 T A s := by
  unfold Pysmi.LR.parse
  rw [collect_agree v1Words cfgV2 cfgV1 agree_v2_v1 _ _ _ _ _ h]

example : avoids v1Words "a OBJECT-TYPE SYNTAX Counter32 MAX-ACCESS read-only".toList = true := by decide
example : avoids v1Words "SYNTAX NetworkAddress".toList = false := by decide
end Pysmi.Lexer

namespace Pysmi.LR
open Pysmi.Grammar Pysmi.Lexer

theorem collect_ok_lexLoop (cfg : Lexer.Cfg) : ∀ (fuel : Nat) (st : LexState) (line : Nat) (s : List Char) (acc : List Lexer.Tok)
    (toks : List Lexer.Tok) (l : Nat), s.length < fuel → collect cfg fuel st line s acc = (toks, none, l) →
    ∃ st', lexLoop cfg fuel st line s acc = .ok (toks, st', l) := by
  intro fuel
  induction fuel with
  | zero => intro st line s acc toks l h; omega
  | succ fuel ih =>
    intro st line s acc toks l h hc
    cases s with
    | nil =>
      simp only [collect, Prod.mk.injEq] at hc
      exact ⟨st, by simp [lexLoop, hc.1, hc.2.2]⟩
    | cons c cs =>
      rw [collect] at hc
      rw [lexLoop]
      cases hst : step cfg st line (c :: cs) with
      | err k => simp [hst] at hc
      | tok t n next lines =>
        simp only [hst] at hc ⊢
        apply ih _ _ _ _ _ _ _ hc
        simp only [List.length_drop, List.length_cons] at h ⊢
        omega
      | skip n next lines =>
        simp only [hst] at hc ⊢
        apply ih _ _ _ _ _ _ _ hc
        simp only [List.length_drop, List.length_cons] at h ⊢
        omega

/-- **C17_accept_monotone**: acceptance under the smaller dialect (strict lexer, any LR tables `T`) implies that the
token string the larger dialect's lexer produces is a sentence of every grammar `P'` that simulates `T`'s — for texts
not using the words the larger dialect reserves. (That PLY's LALR tables for `P'` find *the same tree* is tied by
correspondence, not proved: partial.) -/
theorem C17_accept_monotone (T : Tables) (A : Actions) (text : List Char) (ast : Py.PyVal)
    (hacc : parse cfgV2 T A text = .modules ast) (hav : avoids v1Words text = true)
    (P' : Prods Sym) (hsim : simAll (prodsOf T) P' = true) :
    ∃ toks, lexAll cfgV1 text = .ok toks ∧ Rewrites P' [T.start] (toks.map (·.ty)) := by
  cases hc : collect cfgV2 (text.length + 1) .initial 1 text [] with
  | mk toks rest =>
    obtain ⟨lexErr, eofLine⟩ := rest
    obtain ⟨hnone, tree, hrun, hv, hs, hf⟩ := C11_accept_means_complete cfgV2 T A text ast hacc toks lexErr eofLine hc
    subst hnone
    obtain ⟨st', hl⟩ := collect_ok_lexLoop cfgV2 _ _ _ _ _ _ _ (Nat.lt_succ_self _) hc
    refine ⟨toks, ?_, ?_⟩
    · rw [C17_lexer_monotone text hav]; unfold lexAll; rw [hl]; rfl
    · have hd := tree_derivable T tree hv
      rw [hs, hf] at hd
      have := C17_simulation_sound _ _ hsim _ _ hd
      simpa [tokOf, List.map_map, Function.comp_def] using this

end Pysmi.LR
