import Pysmi.Props.C08Closure
import Pysmi.Props.C07
/-!
# C07 — every requested and every imported name ends with a status

`Acc s n` ("n is somewhere in the pipeline": parsed, generated, borrowed, or already has a status) is preserved by
every step of every phase; the working dictionaries are drained (`parsed` by phase 3, `borrowedM` by phase 5, `built`
by phase 6), so at the end only the status map is left to hold the name. With the closure theorem of C08 (every
requested / imported name is settled when discovery ends) and `FP` (every recorded failure has a status) this gives
`C07_accounted`.
-/
namespace Pysmi.Compile
open Pysmi

/-! ### every settled name ends with a status -/

/-- the name is somewhere in the pipeline: parsed, generated, borrowed, or already has a status -/
def Acc (s : St) (n : Name) : Prop :=
  s.parsed.contains n = true ∨ s.built.contains n = true ∨ s.borrowedM.contains n = true ∨ s.processed.contains n = true

theorem contains_of_set {ν} (d : AList Name ν) (k x : Name) (v : ν) (h : (d.set k v).contains x = true) : x = k ∨ d.contains x = true := by
  by_cases hx : k = x
  · exact Or.inl hx.symm
  · right; simpa [AList.contains, AList.get?_set_ne d k x v hx] using h

theorem contains_del_iff {ν} (d : AList Name ν) (k x : Name) (hx : k ≠ x) : (d.del k).contains x = d.contains x := by
  simp [AList.contains, AList.get?_del_ne d k x hx]

theorem acc_needStep (c : Cfg) (o : Opts) (s : St) (k n : Name) (h : Acc s n) : Acc (needStep c o s k) n := by
  unfold needStep
  split
  · exact h
  · rename_i a mtime t hg
    simp only
    have moved : ∀ (s' : St), s'.parsed = s.parsed.del k → s'.built = s.built → s'.borrowedM = s.borrowedM →
        s'.processed = s.processed.set k { st := .untouched } → Acc s' n := by
      intro s' hp hb hbm hpr
      unfold Acc at *
      rw [hp, hb, hbm, hpr]
      by_cases hk : k = n
      · subst hk; exact Or.inr (Or.inr (Or.inr (contains_set_self _ _ _)))
      · rcases h with h | h | h | h
        · exact Or.inl (by rw [contains_del_iff _ _ _ hk]; exact h)
        · exact Or.inr (Or.inl h)
        · exact Or.inr (Or.inr (Or.inl h))
        · exact Or.inr (Or.inr (Or.inr (contains_set_of _ _ _ _ h)))
    split
    · exact moved _ rfl rfl rfl rfl
    · split
      · exact moved _ rfl rfl rfl rfl
      · exact h

theorem acc_genStep (c : Cfg) (o : Opts) (s : St) (k n : Name) (h : Acc s n) : Acc (genStep c o s k) n := by
  unfold genStep
  split
  · exact h
  · rename_i alias mtime tree hg
    simp only
    unfold Acc at *
    split
    · simp only [St.log]
      by_cases hk : k = n
      · subst hk; exact Or.inr (Or.inl (contains_set_self _ _ _))
      · rcases h with h | h | h | h
        · exact Or.inl (by rw [contains_del_iff _ _ _ hk]; exact h)
        · exact Or.inr (Or.inl (contains_set_of _ _ _ _ h))
        · exact Or.inr (Or.inr (Or.inl h))
        · exact Or.inr (Or.inr (Or.inr h))
    · simp only [St.log]
      by_cases hk : k = n
      · subst hk; exact Or.inr (Or.inr (Or.inr (contains_set_self _ _ _)))
      · rcases h with h | h | h | h
        · exact Or.inl (by rw [contains_del_iff _ _ _ hk]; exact h)
        · exact Or.inr (Or.inl h)
        · exact Or.inr (Or.inr (Or.inl h))
        · exact Or.inr (Or.inr (Or.inr (contains_set_of _ _ _ _ h)))

theorem acc_borrowStep (c : Cfg) (req : List Name) (o : Opts) (s : St) (k n : Name) (h : Acc s n) : Acc (borrowStep c req o s k) n := by
  unfold borrowStep
  split
  · exact h
  · simp only
    unfold Acc at *
    split
    · rcases h with h | h | h | h
      · exact Or.inl h
      · exact Or.inr (Or.inl h)
      · exact Or.inr (Or.inr (Or.inl (contains_set_of _ _ _ _ h)))
      · exact Or.inr (Or.inr (Or.inr h))
    · exact h

theorem acc_needBorrowStep (c : Cfg) (req : List Name) (o : Opts) (s : St) (k n : Name) (h : Acc s n) :
    Acc (needBorrowStep c req o s k) n := by
  unfold needBorrowStep
  split
  · exact h
  · rename_i alias mtime data hg
    simp only
    unfold Acc at *
    have base : ∀ (e : Entry), (s.parsed.contains n = true ∨ s.built.contains n = true ∨ (s.borrowedM.del k).contains n = true ∨
        (s.processed.set k e).contains n = true) := by
      intro e
      by_cases hk : k = n
      · subst hk; exact Or.inr (Or.inr (Or.inr (contains_set_self _ _ _)))
      · rcases h with h | h | h | h
        · exact Or.inl h
        · exact Or.inr (Or.inl h)
        · exact Or.inr (Or.inr (Or.inl (by rw [contains_del_iff _ _ _ hk]; exact h)))
        · exact Or.inr (Or.inr (Or.inr (contains_set_of _ _ _ _ h)))
    split
    · exact base _
    · split
      · exact base _
      · rcases base { st := .borrowed, alias := some alias } with b | b | b | b
        · exact Or.inl b
        · exact Or.inr (Or.inl (contains_set_of _ _ _ _ b))
        · exact Or.inr (Or.inr (Or.inl b))
        · exact Or.inr (Or.inr (Or.inr b))

theorem foldl_acc {α} (f : St → α → St) (hf : ∀ s a n, Acc s n → Acc (f s a) n) (l : List α) (s : St) (n : Name)
    (h : Acc s n) : Acc (l.foldl f s) n := by
  induction l generalizing s with
  | nil => exact h
  | cons a l ih => exact ih _ (hf s a n h)

end Pysmi.Compile

namespace Pysmi.Compile
open Pysmi

theorem acc_storeStep (c : Cfg) (o : Opts) (s : St) (k n : Name) (h : Acc s n) : Acc (storeStep c o s k) n := by
  unfold storeStep
  cases hg : s.built.get? k with
  | none => exact h
  | some r =>
    obtain ⟨alias, mtime, data⟩ := r
    simp only
    unfold Acc at *
    by_cases hk : k = n
    · subst hk
      cases o.writeMibs <;> cases c.put k data o.dryRun <;> cases hc : s.processed.contains k <;>
        simp only [St.log, hc, if_true, if_false, Bool.false_eq_true] <;>
        first
        | trivial
        | exact Or.inr (Or.inr (Or.inr trivial))
        | exact Or.inr (Or.inr (Or.inr hc))
        | exact Or.inr (Or.inr (Or.inr (contains_set_self _ _ _)))
    · have hb : s.parsed.contains n = true ∨ (s.built.del k).contains n = true ∨ s.borrowedM.contains n = true ∨
          s.processed.contains n = true := by
        rcases h with h | h | h | h
        · exact Or.inl h
        · exact Or.inr (Or.inl (by rw [contains_del_iff _ _ _ hk]; exact h))
        · exact Or.inr (Or.inr (Or.inl h))
        · exact Or.inr (Or.inr (Or.inr h))
      cases o.writeMibs <;> cases c.put k data o.dryRun <;> cases hc : s.processed.contains k <;>
        simp only [St.log, hc, if_true, if_false, Bool.false_eq_true] <;>
        first
        | exact hb
        | (rcases hb with b | b | b | b
           · exact Or.inl b
           · exact Or.inr (Or.inl b)
           · exact Or.inr (Or.inr (Or.inl b))
           · exact Or.inr (Or.inr (Or.inr (contains_set_of _ _ _ _ b))))

/-! #### the working dictionaries are drained -/

theorem del_of_get?_none {ν} (d : AList Name ν) (k : Name) (h : d.get? k = none) : d.del k = d := by
  induction d with
  | nil => rfl
  | cons e d ih =>
    obtain ⟨k', v⟩ := e
    unfold AList.get? at h
    unfold AList.del
    by_cases hk : k' = k
    · simp [hk] at h
    · simp only [hk, if_false] at h ⊢
      rw [ih h]

theorem foldl_del_keys {ν} (d : AList Name ν) : d.keys.foldl (fun d k => d.del k) d = [] := by
  induction d with
  | nil => rfl
  | cons e d ih =>
    obtain ⟨k, v⟩ := e
    simp only [AList.keys_cons, List.foldl_cons]
    have : AList.del ((k, v) :: d) k = d := by simp [AList.del]
    rw [this]; exact ih

theorem genStep_parsed (c : Cfg) (o : Opts) (s : St) (k : Name) : (genStep c o s k).parsed = s.parsed.del k := by
  unfold genStep
  split
  · rename_i hg; exact (del_of_get?_none _ _ hg).symm
  · simp only; split <;> rfl

theorem needBorrowStep_borrowedM (c : Cfg) (req : List Name) (o : Opts) (s : St) (k : Name) :
    (needBorrowStep c req o s k).borrowedM = s.borrowedM.del k := by
  unfold needBorrowStep
  split
  · rename_i hg; exact (del_of_get?_none _ _ hg).symm
  · simp only; split
    · rfl
    · split <;> rfl

theorem storeStep_built (c : Cfg) (o : Opts) (s : St) (k : Name) : (storeStep c o s k).built = s.built.del k := by
  unfold storeStep
  cases hg : s.built.get? k with
  | none => exact (del_of_get?_none _ _ hg).symm
  | some r =>
    obtain ⟨alias, mtime, data⟩ := r
    simp only
    cases o.writeMibs <;> cases c.put k data o.dryRun <;> cases hc : s.processed.contains k <;>
      simp only [St.log, hc, if_true, if_false, Bool.false_eq_true]

theorem foldl_field {α β} (f : St → α → St) (g : St → β) (d : β → α → β) (hf : ∀ s a, g (f s a) = d (g s) a)
    (l : List α) (s : St) : g (l.foldl f s) = l.foldl d (g s) := by
  induction l generalizing s with
  | nil => rfl
  | cons a l ih => simp only [List.foldl_cons]; rw [ih, hf]

theorem foldl_keep {α β} (f : St → α → St) (g : St → β) (hf : ∀ s a, g (f s a) = g s) (l : List α) (s : St) :
    g (l.foldl f s) = g s := by
  induction l generalizing s with
  | nil => rfl
  | cons a l ih => simp only [List.foldl_cons]; rw [ih, hf]

theorem phaseGen_parsed (c : Cfg) (o : Opts) (s : St) : (phaseGen c o s).parsed = [] := by
  unfold phaseGen
  rw [foldl_field (genStep c o) (·.parsed) (fun d k => d.del k) (genStep_parsed c o)]
  exact foldl_del_keys _

theorem borrowStep_parsed (c : Cfg) (req : List Name) (o : Opts) (s : St) (k : Name) : (borrowStep c req o s k).parsed = s.parsed := by
  unfold borrowStep
  split
  · rfl
  · simp only; split <;> rfl

theorem needBorrowStep_parsed (c : Cfg) (req : List Name) (o : Opts) (s : St) (k : Name) :
    (needBorrowStep c req o s k).parsed = s.parsed := by
  unfold needBorrowStep
  split
  · rfl
  · simp only; split
    · rfl
    · split <;> rfl

theorem storeStep_parsed (c : Cfg) (o : Opts) (s : St) (k : Name) :
    (storeStep c o s k).parsed = s.parsed ∧ (storeStep c o s k).borrowedM = s.borrowedM := by
  unfold storeStep
  cases hg : s.built.get? k with
  | none => exact ⟨rfl, rfl⟩
  | some r =>
    obtain ⟨alias, mtime, data⟩ := r
    simp only
    cases o.writeMibs <;> cases c.put k data o.dryRun <;> cases hc : s.processed.contains k <;>
      simp only [St.log, hc, if_true, if_false, Bool.false_eq_true] <;> (first | exact ⟨rfl, rfl⟩ | exact ⟨trivial, trivial⟩)

/-- at the gate nothing is left waiting to be generated or taken from a borrower -/
theorem gate_drained (c : Cfg) (req : List Name) (o : Opts) (s : St) :
    let g := phaseNeedBorrow c req o (phaseBorrow c req o (phaseGen c o (phaseNeed c o s)))
    g.parsed = [] ∧ g.borrowedM = [] := by
  intro g
  constructor
  · show (phaseNeedBorrow c req o (phaseBorrow c req o (phaseGen c o (phaseNeed c o s)))).parsed = []
    unfold phaseNeedBorrow
    rw [foldl_keep (needBorrowStep c req o) (·.parsed) (needBorrowStep_parsed c req o)]
    unfold phaseBorrow
    rw [foldl_keep (borrowStep c req o) (·.parsed) (borrowStep_parsed c req o)]
    exact phaseGen_parsed c o _
  · show (phaseNeedBorrow c req o (phaseBorrow c req o (phaseGen c o (phaseNeed c o s)))).borrowedM = []
    unfold phaseNeedBorrow
    rw [foldl_field (needBorrowStep c req o) (·.borrowedM) (fun d k => d.del k) (needBorrowStep_borrowedM c req o)]
    exact foldl_del_keys _

theorem acc_afterGate (c : Cfg) (o : Opts) (s : St) (hp : s.parsed = []) (hb : s.borrowedM = []) (n : Name) (h : Acc s n) :
    (afterGate c o s).processed.contains n = true := by
  have h' : s.built.contains n = true ∨ s.processed.contains n = true := by
    unfold Acc at h
    rw [hp, hb] at h
    rcases h with h | h | h | h
    · cases h
    · exact Or.inl h
    · cases h
    · exact Or.inr h
  unfold afterGate
  split
  · unfold markUnprocessed
    simp only
    have grow : ∀ (ks : List Name) (p : AList Name Entry), (n ∈ ks ∨ p.contains n = true) →
        (ks.foldl (fun p k => p.set k { st := .unprocessed }) p).contains n = true := by
      intro ks
      induction ks with
      | nil => intro p hh; rcases hh with hh | hh
               · cases hh
               · exact hh
      | cons k ks ih =>
        intro p hh
        simp only [List.foldl_cons]
        apply ih
        rcases hh with hh | hh
        · rcases List.mem_cons.mp hh with hh | hh
          · subst hh; exact Or.inr (contains_set_self _ _ _)
          · exact Or.inl hh
        · exact Or.inr (contains_set_of _ _ _ _ hh)
    apply grow
    rcases h' with h' | h'
    · left
      have : s.built.get? n ≠ none := by
        intro hn; simp [AList.contains, hn] at h'
      exact Classical.byContradiction fun hne => this ((AList.get?_eq_none_iff _ _).mpr hne)
    · exact Or.inr h'
  · have hacc : Acc (phaseStore c o s) n := by
      unfold phaseStore
      exact foldl_acc (storeStep c o) (acc_storeStep c o) _ _ _ h
    have hpb : (phaseStore c o s).parsed = [] ∧ (phaseStore c o s).borrowedM = [] ∧ (phaseStore c o s).built = [] := by
      unfold phaseStore
      refine ⟨?_, ?_, ?_⟩
      · rw [foldl_keep (storeStep c o) (·.parsed) (fun s a => (storeStep_parsed c o s a).1)]; exact hp
      · rw [foldl_keep (storeStep c o) (·.borrowedM) (fun s a => (storeStep_parsed c o s a).2)]; exact hb
      · rw [foldl_field (storeStep c o) (·.built) (fun d k => d.del k) (storeStep_built c o)]
        exact foldl_del_keys _
    unfold Acc at hacc
    rw [hpb.1, hpb.2.1, hpb.2.2] at hacc
    rcases hacc with h1 | h1 | h1 | h1
    · cases h1
    · cases h1
    · cases h1
    · exact h1

end Pysmi.Compile

namespace Pysmi.Compile
open Pysmi

/-! #### every recorded failure has a status (during discovery) -/

structure FP (s : St) : Prop where
  nodup : s.failed.keys.Nodup
  status : ∀ x, s.failed.contains x = true → s.processed.contains x = true

theorem contains_del_self {ν} (d : AList Name ν) (k : Name) (h : d.keys.Nodup) : (d.del k).contains k = false := by
  have : k ∉ (d.del k).keys := by
    induction d with
    | nil => simp [AList.del]
    | cons e d ih =>
      obtain ⟨k', v⟩ := e
      simp only [AList.keys_cons, List.nodup_cons] at h
      unfold AList.del
      by_cases hk : k' = k
      · simp only [hk, if_true]; rw [← hk]; exact h.1
      · simp only [hk, if_false, AList.keys_cons, List.mem_cons, not_or]
        exact ⟨fun e => hk e.symm, ih h.2⟩
  have := (AList.get?_eq_none_iff _ _).mpr this
  simp [AList.contains, this]

theorem fp_log {s : St} (k : Call) (h : FP s) : FP (s.log k) := ⟨h.nodup, h.status⟩

theorem fp_failSource {s : St} (n : Name) (e : Err) (h : FP s) : FP (failSource s n e) := by
  unfold failSource
  refine ⟨AList.nodup_keys_set _ _ _ h.nodup, ?_⟩
  intro x hx
  simp only at hx ⊢
  rcases contains_of_set _ _ _ _ hx with hx | hx
  · subst hx; exact contains_set_self _ _ _
  · exact contains_set_of _ _ _ _ (h.status x hx)

theorem fp_clearStale {s : St} (k : Name) (h : FP s) : FP (clearStale s k) := by
  unfold clearStale
  split
  · refine ⟨AList.nodup_keys_del _ _ h.nodup, ?_⟩
    intro x hx
    simp only at hx ⊢
    by_cases hk : k = x
    · subst hk; rw [contains_del_self _ _ h.nodup] at hx; cases hx
    · rw [contains_del_iff _ _ _ hk] at hx ⊢
      exact h.status x hx
  · exact h

theorem fp_registerTree {s : St} (req : List Name) (n alias : Name) (mtime : Int) (tree : Nat) (name : Name)
    (imports : List Name) (h : FP s) : FP (registerTree req s n alias mtime tree name imports) := by
  unfold registerTree
  have h1 : FP ({ s with parsed := s.parsed.set name (alias, mtime, tree) } : St) := ⟨h.nodup, h.status⟩
  have h2 := fp_clearStale name (fp_clearStale n h1)
  simp only
  split
  · exact ⟨h2.nodup, h2.status⟩
  · exact ⟨h2.nodup, h2.status⟩

theorem fp_symTrees (c : Cfg) (req : List Name) (n alias : Name) (mtime : Int) (ts : List Nat) (s : St) (h : FP s) :
    FP (symTrees c req n alias mtime ts s).1 := by
  induction ts generalizing s with
  | nil => exact h
  | cons t ts ih =>
    unfold symTrees
    simp only
    split
    · exact fp_log _ h
    · exact ih _ (fp_registerTree req n alias mtime t _ _ (fp_log _ h))

theorem fp_trySources (c : Cfg) (req : List Name) (n : Name) (srcs : List (Name → SrcAns)) (i : Nat) (s : St) (h : FP s) :
    FP (trySources c req n srcs i s) := by
  induction srcs generalizing i s with
  | nil =>
    unfold trySources
    simp only
    split
    · split
      · exact h
      · refine ⟨h.nodup, ?_⟩
        intro x hx
        exact contains_set_of _ _ _ _ (h.status x hx)
    · split
      · rename_i hp
        refine ⟨AList.nodup_keys_set _ _ _ h.nodup, ?_⟩
        intro x hx
        simp only at hx hp ⊢
        rcases contains_of_set _ _ _ _ hx with hx | hx
        · subst hx; exact hp
        · exact h.status x hx
      · refine ⟨AList.nodup_keys_set _ _ _ h.nodup, ?_⟩
        intro x hx
        simp only at hx ⊢
        rcases contains_of_set _ _ _ _ hx with hx | hx
        · subst hx; exact contains_set_self _ _ _
        · exact contains_set_of _ _ _ _ (h.status x hx)
  | cons src rest ih =>
    unfold trySources
    simp only
    have h1 : FP (s.log (.get i n)) := fp_log _ h
    split
    · exact ih _ _ h1
    · exact ih _ _ (fp_failSource _ _ h1)
    · rename_i alias mtime text _
      have h2 : FP ((s.log (.get i n)).log (.parse text)) := fp_log _ h1
      split
      · exact ih _ _ (fp_failSource _ _ h2)
      · exact ih _ _ (fp_failSource _ _ h2)
      · rename_i ts _ _
        split
        · rename_i hst
          have := fp_symTrees c req n alias mtime ts _ h2
          rw [hst] at this
          exact ih _ _ (fp_failSource _ _ this)
        · rename_i hst
          have := fp_symTrees c req n alias mtime ts _ h2
          rw [hst] at this
          exact this

theorem fp_discoverStep (c : Cfg) (req : List Name) (n : Name) (s : St) (h : FP s) : FP (discoverStep c req n s) := by
  unfold discoverStep
  split
  · exact h
  · split
    · exact h
    · split
      · exact h
      · exact fp_trySources c req n _ _ _ ⟨h.nodup, h.status⟩

theorem fp_discover (c : Cfg) (req : List Name) (fuel : Nat) (s s' : St) (h : FP s)
    (hd : discover c req fuel s = some s') : FP s' := by
  induction fuel generalizing s with
  | zero => simp [discover] at hd
  | succ fuel ih =>
    unfold discover at hd
    split at hd
    · injection hd with hd; rw [← hd]; exact h
    · refine ih _ (fp_discoverStep c req _ _ ?_) hd
      exact ⟨h.nodup, h.status⟩

/-- a settled name is in the pipeline -/
theorem acc_of_done {s : St} (h : FP s) (x : Name) (hd : Done s x) : Acc s x := by
  rcases hd with hd | hd
  · exact Or.inl hd
  · exact Or.inr (Or.inr (Or.inr (h.status x hd)))

/-- the state at the gate carries every name that was in the pipeline after discovery -/
theorem acc_gate (c : Cfg) (req : List Name) (o : Opts) (s : St) (n : Name) (h : Acc s n) :
    Acc (phaseNeedBorrow c req o (phaseBorrow c req o (phaseGen c o (phaseNeed c o s)))) n := by
  unfold phaseNeedBorrow phaseBorrow phaseGen phaseNeed
  exact foldl_acc _ (acc_needBorrowStep c req o) _ _ _
    (foldl_acc _ (acc_borrowStep c req o) _ _ _
      (foldl_acc _ (acc_genStep c o) _ _ _ (foldl_acc _ (acc_needStep c o) _ _ _ h)))

/-- **C07_accounted_from**: whatever is parsed, generated, borrowed or already has a status when discovery ends has a
status in the result - no phase loses a name, whichever way each component call turns out. -/
theorem C07_accounted_from (c : Cfg) (req : List Name) (o : Opts) (fuel : Nat) (s0 : St) (out : Out)
    (hd : discover c req fuel { queue := req } = some s0) (hr : run c req o fuel = some out)
    (n : Name) (h : Acc s0 n) : out.processed.contains n = true := by
  unfold run beforeGate at hr
  rw [hd] at hr
  simp only [Option.map] at hr
  injection hr with hr
  rw [← hr]
  obtain ⟨hp, hb⟩ := gate_drained c req o s0
  exact acc_afterGate c o _ hp hb n (acc_gate c req o s0 n h)

/-- **C07_accounted**: when every file holds the module it is named after, every requested name and every name in the
IMPORTS of every module that was parsed has a status in the returned map, for every import graph, every outcome of every
component call and every option set. (Together with `C07_one_status` - the keys of the map are distinct - this is
"exactly one status for each".) -/
theorem C07_accounted (c : Cfg) (hal : Aligned c) (req : List Name) (o : Opts) (fuel : Nat) (s0 : St) (out : Out)
    (hd : discover c req fuel { queue := req } = some s0) (hr : run c req o fuel = some out) :
    (∀ x ∈ req, out.processed.contains x = true) ∧
    (∀ e ∈ s0.parsed, ∀ x ∈ importsOf c e.2.2.2, out.processed.contains x = true) := by
  have hfp : FP s0 := fp_discover c req fuel _ s0 ⟨by simp [AList.keys], fun x hx => by cases hx⟩ hd
  obtain ⟨h1, h2⟩ := C08_closure c hal req fuel s0 hd
  exact ⟨fun x hx => C07_accounted_from c req o fuel s0 out hd hr x (acc_of_done hfp x (h1 x hx)),
    fun e he x hx => C07_accounted_from c req o fuel s0 out hd hr x (acc_of_done hfp x (h2 e he x hx))⟩

end Pysmi.Compile

namespace Pysmi.Compile
open Pysmi

/-- non-vacuity: two modules importing each other plus a missing third; the hypotheses hold and all three get a status -/
def accCfg : Cfg where
  sources := [fun n => if n = 1 then .ok 1 0 10 else if n = 2 then .ok 2 0 20 else .notFound]
  parse := fun t => .trees [t]
  sym := fun t => if t = 10 then .ok 1 [2, 3] else if t = 20 then .ok 2 [1] else .error
  gen := fun t _ => .ok (t + 1)
  searchers := []
  borrowers := []
  put := fun _ _ _ => true

theorem accCfg_aligned : Aligned accCfg := by
  intro src hsrc n alias mtime text ts hs hp t ht name imps hy
  simp only [accCfg, List.mem_singleton] at hsrc
  subst hsrc
  simp only [accCfg] at hp hy
  injection hp with hp
  subst hp
  simp only [List.mem_singleton] at ht
  subst ht
  by_cases h1 : n = 1
  · subst h1
    simp at hs
    obtain ⟨_, _, ht⟩ := hs; subst ht
    simp at hy; exact hy.1.symm
  · by_cases h2 : n = 2
    · subst h2
      simp at hs
      obtain ⟨_, _, ht⟩ := hs; subst ht
      simp at hy; exact hy.1.symm
    · simp [h1, h2] at hs

example : ((run accCfg [1] { ignoreErrors := true } 10).map fun out => out.processed.map fun e => (e.1, e.2.st)) =
    some [(3, .missing), (1, .compiled), (2, .compiled)] := by decide +kernel

end Pysmi.Compile
