import Pysmi.Model.Syntax
import Pysmi.Lemmas.Except
/-!
# C05 — types, constraints and default values survive compilation exactly

* literals: decimal, hexadecimal and binary spellings of one integer denote the same value, for
  every magnitude (`C05_literal_denotation`), and empty hex/bin strings are rejected;
* ranges and SIZE lists: every alternative is emitted, in order, single values as `min = max`
  (`C05_ranges_in_order`), for lists of any length;
* base type: for chains of derived types of any length across any modules `getBaseType` returns the
  base type at the end of the chain and the enumeration/bit lists met on the way, own list first
  (`C05_basetype_sound/complete`);
* DEFVAL: the emitted form as a function of the resolved base type (`C05_defval_*`).
-/
namespace Pysmi.Syntax

/-! ### digits -/

def digitChar (d : Nat) : Char := if d < 10 then Char.ofNat (48 + d) else Char.ofNat (87 + d)

theorem digitVal_digitChar : ∀ d, d < 16 → digitVal (digitChar d) = some d := by decide

/-- least significant digit first -/
def lsd (b : Nat) : Nat → Nat → List Nat
  | 0, _ => []
  | fuel + 1, n => n % b :: (if n / b = 0 then [] else lsd b fuel (n / b))

def valL (b : Nat) : List Nat → Nat
  | [] => 0
  | d :: ds => d + b * valL b ds

theorem valL_lsd (b : Nat) (hb : 2 ≤ b) (fuel n : Nat) (h : n < fuel) : valL b (lsd b fuel n) = n := by
  induction fuel generalizing n with
  | zero => omega
  | succ fuel ih =>
    unfold lsd
    by_cases hz : n / b = 0
    · simp only [hz, if_true, valL, Nat.mul_zero, Nat.add_zero]
      exact Nat.mod_eq_of_lt (by
        rcases Nat.div_eq_zero_iff.mp hz with h0 | h0
        · omega
        · exact h0)
    · simp only [hz, if_false, valL]
      have hlt : n / b < fuel := by
        have : n / b < n := Nat.div_lt_self (by
          rcases Nat.eq_zero_or_pos n with h0 | h0
          · subst h0; simp at hz
          · exact h0) hb
        omega
      rw [ih _ hlt]
      exact Nat.mod_add_div n b

theorem lsd_lt (b : Nat) (hb : 0 < b) (fuel n : Nat) : ∀ d ∈ lsd b fuel n, d < b := by
  induction fuel generalizing n with
  | zero => simp [lsd]
  | succ fuel ih =>
    intro d hd
    unfold lsd at hd
    rcases List.mem_cons.mp hd with rfl | hd
    · exact Nat.mod_lt _ hb
    · split at hd
      · cases hd
      · exact ih _ d hd

/-- the digit string of `n` in base `b`, most significant first -/
def render (b n : Nat) : List Char := ((lsd b (n + 1) n).reverse).map digitChar

theorem parseDigits_map (b : Nat) (hb16 : b ≤ 16) (ds : List Nat) (hds : ∀ d ∈ ds, d < b) (acc : Nat) :
    parseDigits b (ds.map digitChar) acc = some (ds.foldl (fun a d => a * b + d) acc) := by
  induction ds generalizing acc with
  | nil => rfl
  | cons d ds ih =>
    have hd : d < b := hds d (by simp)
    simp only [List.map_cons, parseDigits, digitVal_digitChar d (by omega), hd, if_true, List.foldl_cons]
    exact ih (fun x hx => hds x (by simp [hx])) _

theorem foldl_reverse_valL (b : Nat) (ds : List Nat) :
    ds.reverse.foldl (fun a d => a * b + d) 0 = valL b ds := by
  induction ds with
  | nil => rfl
  | cons d ds ih =>
    simp only [List.reverse_cons, List.foldl_append, List.foldl_cons, List.foldl_nil, ih, valL]
    rw [Nat.mul_comm]; omega

theorem parse_render (b : Nat) (hb : 2 ≤ b) (hb16 : b ≤ 16) (n : Nat) : parseDigits b (render b n) 0 = some n := by
  unfold render
  rw [parseDigits_map b hb16 _ (by
    intro d hd; exact lsd_lt b (by omega) _ _ d (List.mem_reverse.mp hd))]
  rw [foldl_reverse_valL, valL_lsd b hb _ _ (by omega)]

theorem render_ne_nil (b n : Nat) : render b n ≠ [] := by
  unfold render lsd
  simp

/-- **C05_literal_denotation**: the hexadecimal and binary spellings of a natural number, and its
decimal token, all denote that number — for every magnitude. -/
theorem C05_literal_denotation (n : Nat) :
    str2int (.hex (render 16 n)) = .ok (n : Int) ∧ str2int (.bin (render 2 n)) = .ok (n : Int) ∧
    str2int (.dec n) = .ok (n : Int) := by
  refine ⟨?_, ?_, rfl⟩
  · have h := parse_render 16 (by omega) (by omega) n
    have hne := render_ne_nil 16 n
    cases hr : render 16 n with
    | nil => exact absurd hr hne
    | cons c cs => simp [str2int, ← hr, h]
  · have h := parse_render 2 (by omega) (by omega) n
    have hne := render_ne_nil 2 n
    cases hr : render 2 n with
    | nil => exact absurd hr hne
    | cons c cs => simp [str2int, ← hr, h]

/-- upper-case hex digits denote the same values as lower-case ones -/
theorem C05_hex_case : digitVal 'A' = digitVal 'a' ∧ digitVal 'B' = digitVal 'b' ∧ digitVal 'C' = digitVal 'c' ∧
    digitVal 'D' = digitVal 'd' ∧ digitVal 'E' = digitVal 'e' ∧ digitVal 'F' = digitVal 'f' := by decide

/-- empty hex / binary strings are a semantic error, not zero -/
theorem C05_empty_literal : str2int (.hex []) = .error .emptyHex ∧ str2int (.bin []) = .error .emptyBin := ⟨rfl, rfl⟩

/-! ### ranges and sizes -/

/-- element-wise relation between two lists of the same length -/
inductive Zip2 {α β : Type} (R : α → β → Prop) : List α → List β → Prop
  | nil : Zip2 R [] []
  | cons {a b as bs} : R a b → Zip2 R as bs → Zip2 R (a :: as) (b :: bs)

/-- the (min, max) an alternative denotes, when its literals are well formed -/
def altDenotes (a : Alt) (r : Int × Int) : Prop :=
  match a with
  | .single v => str2int v = .ok r.1 ∧ r.2 = r.1
  | .range lo hi => str2int lo = .ok r.1 ∧ str2int hi = .ok r.2

/-- **C05_ranges_in_order**: the emitted list has one entry per written alternative, in the written
order, a single value giving `min = max` — for lists of any length. -/
theorem C05_ranges_in_order (alts : List Alt) (out : List (Int × Int)) (h : genRanges alts = .ok out) :
    Zip2 altDenotes alts out := by
  induction alts generalizing out with
  | nil => simp [genRanges] at h; subst h; exact .nil
  | cons a rest ih =>
    cases a with
    | single v =>
      simp only [genRanges, bind, Except.bind] at h
      split at h
      · cases h
      · rename_i x hx
        split at h
        · cases h
        · rename_i r hr
          simp only [pure, Except.pure, Except.ok.injEq] at h
          subst h
          exact .cons ⟨hx, rfl⟩ (ih r hr)
    | range lo hi =>
      simp only [genRanges, bind, Except.bind] at h
      split at h
      · cases h
      · rename_i a ha
        split at h
        · cases h
        · rename_i b hb
          split at h
          · cases h
          · rename_i r hr
            simp only [pure, Except.pure, Except.ok.injEq] at h
            subst h
            exact .cons ⟨ha, hb⟩ (ih r hr)

/-! ### base type resolution -/

/-- specification: `n` of module `m` resolves to base type `b` with merged list `sub` -/
inductive Resolves (isBase : Name → Bool) (empty : Name) (T : Types) :
    Name → Module → Name → Option (List (Name × Int)) → Prop
  | base {n m ti} : T m n = some ti → ti.base ≠ empty → isBase ti.base = true →
      Resolves isBase empty T n m ti.base ti.sub
  | step {n m ti b below} : T m n = some ti → ti.base ≠ empty → isBase ti.base = false →
      Resolves isBase empty T ti.base ti.module b below →
      Resolves isBase empty T n m b (mergeSub ti.sub below)

theorem C05_basetype_sound (isBase : Name → Bool) (empty : Name) (T : Types) (fuel : Nat) (n : Name) (m : Module)
    (b : Name) (sub : Option (List (Name × Int)))
    (h : getBaseType isBase empty T fuel n m = .ok (b, sub)) : Resolves isBase empty T n m b sub := by
  induction fuel generalizing n m b sub with
  | zero => simp [getBaseType] at h
  | succ fuel ih =>
    unfold getBaseType at h
    split at h
    · cases h
    · rename_i ti hti
      split at h
      · cases h
      · rename_i hne
        split at h
        · rename_i hb
          injection h with h; injection h with h1 h2; subst h1 h2
          exact .base hti hne hb
        · rename_i hb
          split at h
          · cases h
          · rename_i b' below hrec
            injection h with h; injection h with h1 h2; subst h1 h2
            exact .step hti hne (by simpa using hb) (ih _ _ _ _ hrec)

/-- the base type found at the end of a chain is a base type -/
theorem C05_basetype_is_base (isBase : Name → Bool) (empty : Name) (T : Types) (n : Name) (m : Module) (b : Name)
    (sub : Option (List (Name × Int))) (h : Resolves isBase empty T n m b sub) : isBase b = true := by
  induction h with
  | base _ _ hb => exact hb
  | step _ _ _ _ ih => exact ih

theorem C05_basetype_functional (isBase : Name → Bool) (empty : Name) (T : Types) (n : Name) (m : Module)
    (b b' : Name) (s s' : Option (List (Name × Int)))
    (h : Resolves isBase empty T n m b s) (h' : Resolves isBase empty T n m b' s') : b = b' ∧ s = s' := by
  induction h generalizing b' s' with
  | base ht _ hb =>
    cases h' with
    | base ht' _ _ => rw [ht] at ht'; injection ht' with ht'; subst ht'; exact ⟨rfl, rfl⟩
    | step ht' _ hb' _ => rw [ht] at ht'; injection ht' with ht'; subst ht'; rw [hb] at hb'; cases hb'
  | step ht _ hb _ ih =>
    cases h' with
    | base ht' _ hb' => rw [ht] at ht'; injection ht' with ht'; subst ht'; rw [hb] at hb'; cases hb'
    | step ht' _ _ hr' =>
      rw [ht] at ht'; injection ht' with ht'; subst ht'
      obtain ⟨h1, h2⟩ := ih _ _ hr'
      subst h1 h2; exact ⟨rfl, rfl⟩

/-- **C05_basetype_complete**: for every (acyclic) chain of derived types, of any length and across any
modules, the resolver returns the base type at its end and the merged lists, given the recursion
depth of the chain. -/
theorem C05_basetype_complete (isBase : Name → Bool) (empty : Name) (T : Types) (n : Name) (m : Module) (b : Name)
    (sub : Option (List (Name × Int))) (h : Resolves isBase empty T n m b sub) :
    ∃ fuel0, ∀ fuel, fuel0 ≤ fuel → getBaseType isBase empty T fuel n m = .ok (b, sub) := by
  induction h with
  | base ht hne hb =>
    refine ⟨1, fun fuel hle => ?_⟩
    obtain ⟨f, rfl⟩ : ∃ f, fuel = f + 1 := ⟨fuel - 1, by omega⟩
    simp [getBaseType, ht, hne, hb]
  | step ht hne hb _ ih =>
    obtain ⟨f0, hf⟩ := ih
    refine ⟨f0 + 1, fun fuel hle => ?_⟩
    obtain ⟨f, rfl⟩ : ∃ f, fuel = f + 1 := ⟨fuel - 1, by omega⟩
    simp [getBaseType, ht, hne, hb, hf f (by omega)]

/-! ### DEFVAL forms -/

/-- **C05_defval_number**: a decimal DEFVAL is emitted as that number whatever the base type. -/
theorem C05_defval_number (i o b t : Bool) (e : Option (List (Name × Int))) (k : Name → Bool) (v : Int) :
    genDefVal i o b t e k (.num v) = .decimal v := rfl

/-- **C05_defval_hex**: a hex literal on an integer base is the integer it denotes; on any other base its
digits verbatim. -/
theorem C05_defval_hex (o b t : Bool) (e : Option (List (Name × Int))) (k : Name → Bool) (n : Nat) :
    genDefVal true o b t e k (.hex (render 16 n)) = .hexOfInt n ∧
    genDefVal false o b t e k (.hex (render 16 n)) = .hexDigits (render 16 n) := by
  have h := parse_render 16 (by omega) (by omega) n
  have hne := render_ne_nil 16 n
  cases hr : render 16 n with
  | nil => exact absurd hr hne
  | cons c cs => simp [genDefVal, ← hr, h]

theorem C05_defval_bin (o b t : Bool) (e : Option (List (Name × Int))) (k : Name → Bool) (n : Nat) :
    genDefVal true o b t e k (.bin (render 2 n)) = .binOfInt n ∧
    genDefVal false o b t e k (.bin (render 2 n)) = .hexOfBin (some (((render 2 n).length + 3) / 4, n)) := by
  have h := parse_render 2 (by omega) (by omega) n
  have hne := render_ne_nil 2 n
  cases hr : render 2 n with
  | nil => exact absurd hr hne
  | cons c cs => simp [genDefVal, ← hr, h]

/-- **C05_defval_enum**: an enumeration label is emitted iff it is a member of the enumeration resolved
through the chain of derived types. -/
theorem C05_defval_enum (t : Bool) (l : List (Name × Int)) (k : Name → Bool) (n : Name) :
    genDefVal true false false t (some l) k (.label n) = .enum n ↔ ∃ v, (n, v) ∈ l := by
  simp only [genDefVal, Bool.false_and, Bool.false_eq_true, if_false, if_true]
  constructor
  · intro h
    split at h
    · rename_i hany
      obtain ⟨e, he, hn⟩ := List.any_eq_true.mp hany
      exact ⟨e.2, by simp only [beq_iff_eq] at hn; rw [← hn]; exact he⟩
    · cases h
  · rintro ⟨v, hv⟩
    have : l.any (·.1 == n) = true := List.any_eq_true.mpr ⟨(n, v), hv, by simp⟩
    simp [this]

/-- **C05_defval_string**: a non-empty string DEFVAL is emitted verbatim on every base type; the empty string is kept on
OCTET STRING and dropped on every other base (the "common mistake in MIBs" the code means to tolerate). -/
theorem C05_defval_string (i o b t : Bool) (e : Option (List (Name × Int))) (k : Name → Bool) (s : List Char)
    (hs : s ≠ [] ∨ t = true) : genDefVal i o b t e k (.str s) = .string s := by
  cases s with
  | nil =>
    rcases hs with hs | hs
    · exact absurd rfl hs
    · subst hs; simp [genDefVal]
  | cons c cs => simp [genDefVal]

theorem C05_defval_empty_string_dropped (i o b : Bool) (e : Option (List (Name × Int))) (k : Name → Bool) :
    genDefVal i o b false e k (.str []) = .nothing := by simp [genDefVal]

/-- **C05_defval_oid**: a label on an OBJECT IDENTIFIER base that names a known symbol is resolved to
that symbol's OID. -/
theorem C05_defval_oid (i b t : Bool) (e : Option (List (Name × Int))) (k : Name → Bool) (n : Name) (hk : k n = true) :
    genDefVal i true b t e k (.label n) = .oidOf n := by simp [genDefVal, hk]

/-! ### non-vacuity -/
example : render 16 255 = ['f', 'f'] ∧ render 2 5 = ['1', '0', '1'] ∧ render 16 0 = ['0'] := by decide
example : str2int (.hex "7FffFFFF".toList) = .ok 2147483647 := by decide
example : getBaseType (· == 1) 0 (fun m n => match m, n with
    | 0, 10 => some ⟨11, 1, some [(5, 1)]⟩ | 1, 11 => some ⟨12, 1, none⟩ | 1, 12 => some ⟨1, 0, some [(6, 2)]⟩ | _, _ => none)
    5 10 0 = .ok (1, some [(5, 1), (6, 2)]) := by decide

end Pysmi.Syntax
