import Pysmi.Props.C02
import Pysmi.Lemmas.Except
/-!
# C11 / C02, continued — line numbers

* `C11_step_lines`: in every lexer state, what a rule adds to the line counter is the number of line ends (LF, CR, CR LF once)
  in the text it consumes, and no rule stops between a CR and its LF (this needed the repair c922e1f for MACRO / EXPORTS /
  CHOICE bodies);
* `countNewlines_append`: line-end counts add up over pieces that do not split a CR LF;
* `C11_token_lines`: hence every token carries the number of the line it starts on, and a lexer error the number of the line on
  which scanning stopped: `1 + countNewlines (text.take offset)` — for every text and every layout;
  `C11_token_lines_tokens` ties the offset-recording scan to `lexAll`.
-/
namespace Pysmi.Lexer

/-- no line end is split between `a` and `b` -/
def Clean (a b : Str) : Prop := ¬ (a.getLast? = some '\r' ∧ b.head? = some '\n')

theorem countNewlines_cons (c : Char) (rest : Str) : countNewlines (c :: rest) =
    (if c = '\n' then 1 + countNewlines rest
     else if c = '\r' then (if rest.head? = some '\n' then countNewlines rest else 1 + countNewlines rest)
     else countNewlines rest) := rfl

theorem countNewlines_append : ∀ (a b : Str), Clean a b → countNewlines (a ++ b) = countNewlines a + countNewlines b := by
  intro a
  induction a with
  | nil => intro b _; simp [countNewlines]
  | cons c a' ih =>
    intro b hcl
    cases a' with
    | nil =>
      simp only [List.singleton_append]
      rw [countNewlines_cons c b, countNewlines_cons c []]
      by_cases h1 : c = '\n'
      · simp [h1, countNewlines]
      · by_cases h2 : c = '\r'
        · subst h2
          have : b.head? ≠ some '\n' := by
            intro hb; apply hcl; exact ⟨by simp, hb⟩
          simp [this, countNewlines]
        · simp [h1, h2, countNewlines]
    | cons d a'' =>
      have hcl' : Clean (d :: a'') b := by
        unfold Clean at *
        rw [List.getLast?_cons_cons] at hcl
        exact hcl
      have := ih b hcl'
      simp only [List.cons_append] at this ⊢
      rw [countNewlines_cons c (d :: (a'' ++ b)), countNewlines_cons c (d :: a''), this]
      by_cases h1 : c = '\n'
      · simp only [h1, if_true]; omega
      · by_cases h2 : c = '\r'
        · simp only [h2, List.head?_cons]
          by_cases h3 : d = '\n'
          · simp [h3]
          · have e : ¬ (some d = some '\n') := by simp [h3]
            simp only [e, if_false]; simp; omega
        · simp only [h1, h2, if_false]

theorem countNewlines_zero (l : Str) (h : ∀ c ∈ l, c ≠ '\n' ∧ c ≠ '\r') : countNewlines l = 0 := by
  induction l with
  | nil => rfl
  | cons c cs ih =>
    rw [countNewlines_cons]
    have hc := h c (by simp)
    simp only [hc.1, hc.2, if_false]
    exact ih (fun x hx => h x (List.mem_cons_of_mem _ hx))

theorem mem_take_spanLen (p : Char → Bool) : ∀ (s : Str) (c : Char), c ∈ s.take (spanLen p s) → p c = true := by
  intro s
  induction s with
  | nil => intro c h; simp [spanLen] at h
  | cons x xs ih =>
    intro c h
    unfold spanLen at h
    by_cases hp : p x = true
    · simp only [hp, if_true] at h
      rw [show 1 + spanLen p xs = spanLen p xs + 1 by omega, List.take_succ_cons] at h
      rcases List.mem_cons.mp h with h | h
      · rw [h]; exact hp
      · exact ih c h
    · simp [hp] at h


/-- a segment without line-end characters: counts zero and cannot end in a CR that a following LF would complete -/
theorem noeol_ok (seg rest : Str) (h : ∀ c ∈ seg, c ≠ '\n' ∧ c ≠ '\r') :
    0 = countNewlines seg ∧ Clean seg rest := by
  refine ⟨(countNewlines_zero seg h).symm, ?_⟩
  rintro ⟨h1, _⟩
  have := List.mem_of_getLast? h1
  exact (h _ this).2 rfl

theorem isIdChar_noeol (c : Char) (h : isIdChar c = true) : c ≠ '\n' ∧ c ≠ '\r' := by
  constructor <;> (intro e; subst e; exact absurd h (by decide))
theorem isDigit_noeol (c : Char) (h : isDigit c = true) : c ≠ '\n' ∧ c ≠ '\r' := by
  constructor <;> (intro e; subst e; exact absurd h (by decide))
theorem isUpper_noeol (c : Char) (h : isUpper c = true) : c ≠ '\n' ∧ c ≠ '\r' := by
  constructor <;> (intro e; subst e; exact absurd h (by decide))
theorem isLower_noeol (c : Char) (h : isLower c = true) : c ≠ '\n' ∧ c ≠ '\r' := by
  constructor <;> (intro e; subst e; exact absurd h (by decide))
theorem isHexDigit_noeol (c : Char) (h : isHexDigit c = true) : c ≠ '\n' ∧ c ≠ '\r' := by
  constructor <;> (intro e; subst e; exact absurd h (by decide))
theorem isBinDigit_noeol (c : Char) (h : isBinDigit c = true) : c ≠ '\n' ∧ c ≠ '\r' := by
  constructor <;> (intro e; subst e; exact absurd h (by decide))

theorem matchUpper_noeol (s : Str) (n : Nat) (h : matchUpper s = some n) : ∀ c ∈ s.take n, c ≠ '\n' ∧ c ≠ '\r' := by
  cases s with
  | nil => simp [matchUpper] at h
  | cons x xs =>
    simp only [matchUpper] at h
    split at h
    · rename_i hu
      injection h with h; subst h
      intro c hc
      rw [show 1 + spanLen isIdChar xs = spanLen isIdChar xs + 1 by omega, List.take_succ_cons] at hc
      rcases List.mem_cons.mp hc with hc | hc
      · rw [hc]; exact isUpper_noeol x hu
      · exact isIdChar_noeol c (mem_take_spanLen isIdChar xs c hc)
    · cases h

theorem take_add_drop_mem (s : Str) (d k : Nat) (c : Char) (h : c ∈ s.take (d + k)) : c ∈ s.take d ∨ c ∈ (s.drop d).take k := by
  rw [List.take_add] at h
  exact List.mem_append.mp h

theorem matchLower_noeol (s : Str) (n : Nat) (h : matchLower s = some n) : ∀ c ∈ s.take n, c ≠ '\n' ∧ c ≠ '\r' := by
  unfold matchLower at h
  simp only at h
  split at h
  · rename_i x xs hd
    split at h
    · rename_i hl
      injection h with h; subst h
      intro c hc
      rw [show spanLen isDigit s + 1 + spanLen isIdChar xs = spanLen isDigit s + (spanLen isIdChar xs + 1) by omega] at hc
      rcases take_add_drop_mem s _ _ c hc with hc | hc
      · exact isDigit_noeol c (mem_take_spanLen isDigit s c hc)
      · rw [hd, List.take_succ_cons] at hc
        rcases List.mem_cons.mp hc with hc | hc
        · rw [hc]; exact isLower_noeol x hl
        · exact isIdChar_noeol c (mem_take_spanLen isIdChar xs c hc)
    · cases h
  · cases h

theorem matchNumber_noeol (s : Str) (n : Nat) (h : matchNumber s = some n) : ∀ c ∈ s.take n, c ≠ '\n' ∧ c ≠ '\r' := by
  unfold matchNumber at h
  split at h
  · rename_i cs
    simp only at h
    split at h
    · cases h
    · injection h with h; subst h
      intro c hc
      rw [show 1 + spanLen isDigit cs = spanLen isDigit cs + 1 by omega, List.take_succ_cons] at hc
      rcases List.mem_cons.mp hc with hc | hc
      · rw [hc]; decide
      · exact isDigit_noeol c (mem_take_spanLen isDigit cs c hc)
  · simp only at h
    split at h
    · cases h
    · injection h with h; subst h
      intro c hc
      exact isDigit_noeol c (mem_take_spanLen isDigit s c hc)


theorem matchQuotedDigits_noeol (p : Char → Bool) (hp : ∀ c, p c = true → c ≠ '\n' ∧ c ≠ '\r') (lo up : Char)
    (hlo : lo ≠ '\n' ∧ lo ≠ '\r') (hup : up ≠ '\n' ∧ up ≠ '\r') (s : Str) (n : Nat)
    (h : matchQuotedDigits p lo up s = some n) : ∀ c ∈ s.take n, c ≠ '\n' ∧ c ≠ '\r' := by
  unfold matchQuotedDigits at h
  split at h
  · rename_i cs
    simp only at h
    split at h
    · rename_i x rest hd
      split at h
      · rename_i hx
        injection h with h; subst h
        intro c hc
        rw [show spanLen p cs + 3 = (spanLen p cs + 2) + 1 by omega, List.take_succ_cons] at hc
        rcases List.mem_cons.mp hc with hc | hc
        · rw [hc]; decide
        · rcases take_add_drop_mem cs _ _ c hc with hc | hc
          · exact hp c (mem_take_spanLen p cs c hc)
          · rw [hd] at hc
            simp only [List.take_succ_cons, List.take_zero, List.mem_cons, List.not_mem_nil, or_false] at hc
            rcases hc with hc | hc
            · rw [hc]; decide
            · rw [hc]
              rcases Bool.or_eq_true_iff.mp hx with hx | hx
              · have : x = lo := by simpa using hx
                rw [this]; exact hlo
              · have : x = up := by simpa using hx
                rw [this]; exact hup
      · cases h
    · cases h
  · cases h

theorem startsWith_take : ∀ (s lit : Str), startsWith s lit = true → s.take lit.length = lit
  | _, [], _ => by simp
  | [], _ :: _, h => by simp [startsWith] at h
  | c :: s, d :: lit, h => by
    simp only [startsWith, Bool.and_eq_true, beq_iff_eq] at h
    simp [h.1, startsWith_take s lit h.2]

theorem newlineLen_ok (s : Str) (n : Nat) (h : newlineLen s = some n) :
    1 = countNewlines (s.take n) ∧ Clean (s.take n) (s.drop n) := by
  cases s with
  | nil => simp [newlineLen] at h
  | cons c rest =>
    simp only [newlineLen] at h
    by_cases h1 : c = '\r'
    · subst h1
      by_cases h2 : rest.head? = some '\n'
      · simp only [if_true, h2] at h
        injection h with h; subst h
        cases rest with
        | nil => simp at h2
        | cons d rest' =>
          have : d = '\n' := by simpa using h2
          subst this
          refine ⟨by simp [countNewlines], ?_⟩
          rintro ⟨hl, _⟩
          simp at hl
      · simp only [if_true, h2, if_false] at h
        injection h with h; subst h
        refine ⟨by simp [countNewlines], ?_⟩
        rintro ⟨_, hd⟩
        simp only [List.drop_succ_cons, List.drop_zero] at hd
        exact h2 hd
    · by_cases h3 : c = '\n'
      · subst h3
        simp only [h1, if_false, if_true] at h
        injection h with h; subst h
        refine ⟨by simp [countNewlines], ?_⟩
        rintro ⟨hl, _⟩
        simp at hl
      · simp [h1, h3] at h

/-- a segment whose last character is not CR, or that is followed by something other than LF, splits no line end -/
theorem clean_of_last (seg rest : Str) (c : Char) (h : seg.getLast? = some c) (hc : c ≠ '\r') : Clean seg rest := by
  rintro ⟨h1, _⟩; rw [h] at h1; injection h1 with h1; exact hc h1

theorem clean_of_next (seg rest : Str) (h : rest.head? ≠ some '\n') : Clean seg rest := by
  rintro ⟨_, h2⟩; exact h h2

theorem spanLen_drop_head (p : Char → Bool) : ∀ (s : Str), ∀ c, (s.drop (spanLen p s)).head? = some c → p c = false := by
  intro s
  induction s with
  | nil => intro c h; simp [spanLen] at h
  | cons x xs ih =>
    intro c h
    unfold spanLen at h
    by_cases hp : p x = true
    · simp only [hp, if_true] at h
      rw [show 1 + spanLen p xs = spanLen p xs + 1 by omega, List.drop_succ_cons] at h
      exact ih c h
    · simp only [hp, Bool.false_eq_true, if_false, List.drop_zero, List.head?_cons] at h
      injection h with h; rw [← h]; simpa using hp


theorem lit_ok (s lit : Str) (h : startsWith s lit = true) (hl : ∀ c ∈ lit, c ≠ '\n' ∧ c ≠ '\r') :
    0 = countNewlines (s.take lit.length) ∧ Clean (s.take lit.length) (s.drop lit.length) := by
  rw [startsWith_take s lit h]; exact noeol_ok _ _ hl

theorem char_ok (c : Char) (cs : Str) (hc : c ≠ '\n' ∧ c ≠ '\r') :
    0 = countNewlines ((c :: cs).take 1) ∧ Clean ((c :: cs).take 1) ((c :: cs).drop 1) := by
  apply noeol_ok
  intro x hx
  simp only [List.take_succ_cons, List.take_zero, List.mem_singleton] at hx
  rw [hx]; exact hc

theorem literals_noeol (c : Char) (h : literals.contains c = true) : c ≠ '\n' ∧ c ≠ '\r' := by
  constructor <;> (intro e; subst e; exact absurd h (by decide))

theorem getLast?_take_of_drop (s : Str) (d : Nat) (x : Char) (rest : Str) (h : s.drop d = x :: rest) :
    (s.take (d + 1)).getLast? = some x := by
  induction s generalizing d with
  | nil => simp at h
  | cons y ys ih =>
    cases d with
    | zero => simp at h; simp [h.1]
    | succ d =>
      simp only [List.drop_succ_cons] at h
      have := ih d h
      rw [show d + 1 + 1 = (d + 1) + 1 by rfl, List.take_succ_cons]
      rw [List.getLast?_cons]
      cases hq : (ys.take (d + 1)).getLast? with
      | none => rw [hq] at this; cases this
      | some z => rw [hq] at this; simp [this]

theorem matchQuoted_ok (s : Str) (n : Nat) (h : matchQuoted s = some n) : Clean (s.take n) (s.drop n) := by
  unfold matchQuoted at h
  split at h
  · rename_i cs
    simp only at h
    split at h
    · rename_i rest hd
      injection h with h; subst h
      apply clean_of_last _ _ '"' _ (by decide)
      rw [show spanLen (fun x => x != '"') cs + 2 = (spanLen (fun x => x != '"') cs + 1) + 1 by omega, List.take_succ_cons]
      have := getLast?_take_of_drop cs _ '"' rest hd
      rw [List.getLast?_cons]
      rw [this]; rfl
    · cases h
  · cases h

/-- what a step must satisfy: the line ends it reports are those of the text it consumes, and it splits no CR LF -/
def StepOK (s : Str) : Step → Prop
  | .tok _ n _ lines => lines = countNewlines (s.take n) ∧ Clean (s.take n) (s.drop n)
  | .skip n _ lines => lines = countNewlines (s.take n) ∧ Clean (s.take n) (s.drop n)
  | .err _ => True

theorem stepOK_initial (cfg : Cfg) (line : Nat) (c : Char) (cs : Str) : StepOK (c :: cs) (step cfg .initial line (c :: cs)) := by
  unfold step
  simp only
  repeat' split
  all_goals first
    | trivial
    | (simp only [StepOK]; exact newlineLen_ok _ _ (by assumption))
    | (simp only [StepOK]; exact noeol_ok _ _ (matchUpper_noeol _ _ (by assumption)))
    | (simp only [StepOK]; exact noeol_ok _ _ (matchLower_noeol _ _ (by assumption)))
    | (simp only [StepOK]; exact noeol_ok _ _ (matchNumber_noeol _ _ (by assumption)))
    | (simp only [StepOK]; exact noeol_ok _ _ (matchQuotedDigits_noeol isBinDigit isBinDigit_noeol 'b' 'B' (by decide) (by decide) _ _ (by assumption)))
    | (simp only [StepOK]; exact noeol_ok _ _ (matchQuotedDigits_noeol isHexDigit isHexDigit_noeol 'h' 'H' (by decide) (by decide) _ _ (by assumption)))
    | (unfold StepOK; exact ⟨rfl, matchQuoted_ok _ _ (by assumption)⟩)
    | (simp only [StepOK, true_and]; exact matchQuoted_ok _ _ (by assumption))
    | (simp only [StepOK]; exact lit_ok _ "MACRO".toList (by assumption) (by decide))
    | (simp only [StepOK]; exact lit_ok _ "EXPORTS".toList (by assumption) (by decide))
    | (simp only [StepOK]; exact lit_ok _ "CHOICE".toList (by assumption) (by decide))
    | (simp only [StepOK]; exact lit_ok _ "--".toList (by assumption) (by decide))
    | (simp only [StepOK]; exact lit_ok _ "..".toList (by assumption) (by decide))
    | (simp only [StepOK]; exact lit_ok _ "::=".toList (by assumption) (by decide))
    | (simp only [StepOK]; exact char_ok _ _ (literals_noeol _ (by assumption)))
    | (rename_i heq; injection heq with h1 h2; subst h1; simp only [StepOK]; exact char_ok _ _ (by decide))
    | skip


theorem macroBody_go_next : ∀ (t : Str) (k m : Nat), macroBodyLen.go t k = some m → k ≤ m ∧ startsWith (t.drop (m - k)) "END".toList = true := by
  intro t
  induction t with
  | nil => intro k m h; simp [macroBodyLen.go] at h
  | cons x xs ih =>
    intro k m h
    unfold macroBodyLen.go at h
    split at h
    · rename_i hs
      injection h with h; subst h
      refine ⟨Nat.le_refl _, ?_⟩
      simpa using hs
    · obtain ⟨h1, h2⟩ := ih _ _ h
      refine ⟨by omega, ?_⟩
      rw [show m - k = (m - (k + 1)) + 1 by omega, List.drop_succ_cons]
      exact h2

theorem macroBody_ok (s : Str) (n : Nat) (h : macroBodyLen s = some n) : Clean (s.take n) (s.drop n) := by
  cases s with
  | nil => simp [macroBodyLen] at h
  | cons c rest =>
    simp only [macroBodyLen] at h
    obtain ⟨h1, h2⟩ := macroBody_go_next rest 1 n h
    apply clean_of_next
    rw [show n = (n - 1) + 1 by omega, List.drop_succ_cons]
    intro hh
    cases hd : rest.drop (n - 1) with
    | nil => rw [hd] at h2; simp [startsWith] at h2
    | cons y ys =>
      rw [hd] at h2 hh
      have hy : y = '\n' := by simpa using hh
      subst hy
      simp [startsWith] at h2

theorem span_body_ok (stop : Char) (hstop : stop ≠ '\n') (s : Str) :
    Clean (s.take (spanLen (fun c => c != stop) s)) (s.drop (spanLen (fun c => c != stop) s)) := by
  apply clean_of_next
  intro hh
  have := spanLen_drop_head (fun c => c != stop) s '\n' hh
  have e : ('\n' : Char) = stop := by simpa using this
  exact hstop e.symm

theorem stepOK_macro (cfg : Cfg) (line : Nat) (c : Char) (cs : Str) : StepOK (c :: cs) (step cfg .macro line (c :: cs)) := by
  unfold step
  simp only
  repeat' split
  all_goals first
    | trivial
    | (simp only [StepOK]; exact newlineLen_ok _ _ (by assumption))
    | (simp only [StepOK]; exact lit_ok _ "END".toList (by assumption) (by decide))
    | (unfold StepOK; exact ⟨rfl, macroBody_ok _ _ (by assumption)⟩)

theorem stepOK_exports (cfg : Cfg) (line : Nat) (c : Char) (cs : Str) : StepOK (c :: cs) (step cfg .exports line (c :: cs)) := by
  unfold step
  simp only
  repeat' split
  all_goals first
    | trivial
    | (simp only [StepOK]; exact newlineLen_ok _ _ (by assumption))
    | (unfold StepOK; exact ⟨rfl, span_body_ok ';' (by decide) _⟩)
    | (rename_i heq; injection heq with h1 h2; subst h1; simp only [StepOK]; exact char_ok _ _ (by decide))

theorem stepOK_choice (cfg : Cfg) (line : Nat) (c : Char) (cs : Str) : StepOK (c :: cs) (step cfg .choice line (c :: cs)) := by
  unfold step
  simp only
  repeat' split
  all_goals first
    | trivial
    | (simp only [StepOK]; exact newlineLen_ok _ _ (by assumption))
    | (unfold StepOK; exact ⟨rfl, span_body_ok '}' (by decide) _⟩)
    | (rename_i heq; injection heq with h1 h2; subst h1; simp only [StepOK]; exact char_ok _ _ (by decide))

theorem stepOK_comment (cfg : Cfg) (line : Nat) (c : Char) (cs : Str) : StepOK (c :: cs) (step cfg .comment line (c :: cs)) := by
  unfold step
  simp only
  repeat' split
  all_goals first
    | trivial
    | (simp only [StepOK]; exact newlineLen_ok _ _ (by assumption))
    | (simp only [StepOK]
       apply noeol_ok
       intro x hx
       have := mem_take_spanLen (fun c => c != '\r' && c != '\n') _ x hx
       simp only [Bool.and_eq_true, bne_iff_ne, ne_eq] at this
       exact ⟨this.2, this.1⟩)

/-- **C11_step_lines**: in every lexer state, the number of line ends a rule adds to the line counter is the number of line
ends (CR LF counted once) in the text it consumes, and no rule stops between a CR and its LF. -/
theorem C11_step_lines (cfg : Cfg) (st : LexState) (line : Nat) (c : Char) (cs : Str) : StepOK (c :: cs) (step cfg st line (c :: cs)) := by
  cases st
  · exact stepOK_initial cfg line c cs
  · exact stepOK_macro cfg line c cs
  · exact stepOK_choice cfg line c cs
  · exact stepOK_exports cfg line c cs
  · exact stepOK_comment cfg line c cs


/-! ### from steps to whole texts: every token carries the number of the line it starts on -/

/-- `scan` that also records the offset at which each token starts -/
def scanOff (cfg : Cfg) : Nat → LexState → Nat → Nat → Str → Except LexErr (List (Tok × Nat))
  | 0, _, _, _, _ => .error .outOfFuel
  | _ + 1, _, _, _, [] => .ok []
  | fuel + 1, st, line, off, c :: cs =>
    match step cfg st line (c :: cs) with
    | .err k => .error (.err k line)
    | .tok t n next lines => (scanOff cfg fuel next (line + lines) (off + max n 1) ((c :: cs).drop (max n 1))).map ((t, off) :: ·)
    | .skip n next lines => scanOff cfg fuel next (line + lines) (off + max n 1) ((c :: cs).drop (max n 1))

/-- the tokens are those of `scan` -/
theorem scanOff_tokens (cfg : Cfg) : ∀ (fuel : Nat) (st : LexState) (line off : Nat) (s : Str),
    (scanOff cfg fuel st line off s).map (List.map Prod.fst) = scan cfg fuel st line s := by
  intro fuel
  induction fuel with
  | zero => intro st line off s; rfl
  | succ fuel ih =>
    intro st line off s
    cases s with
    | nil => rfl
    | cons c cs =>
      rw [scan_cons]
      unfold scanOff
      cases step cfg st line (c :: cs) with
      | err k => rfl
      | tok t n next lines =>
        simp only
        rw [← ih next (line + lines) (off + max n 1)]
        cases scanOff cfg fuel next (line + lines) (off + max n 1) ((c :: cs).drop (max n 1)) <;> simp [Except.map]
      | skip n next lines => exact ih _ _ _ _

theorem step_tok_line (cfg : Cfg) (st : LexState) (line : Nat) (s : Str) (t : Tok) (n : Nat) (next : LexState) (lines : Nat)
    (h : step cfg st line s = .tok t n next lines) : t.line = line := by
  cases st <;> unfold step at h <;> simp only at h <;> (repeat' split at h) <;>
    first
    | (injection h with h1 _ _ _; rw [← h1])
    | cases h

theorem clean_append (pre seg rest : Str) (hne : seg ≠ []) (h : Clean seg rest) : Clean (pre ++ seg) rest := by
  unfold Clean at *
  rw [List.getLast?_append]
  cases hl : seg.getLast? with
  | none => exact absurd (List.getLast?_eq_none_iff.mp hl) hne
  | some x => rw [hl] at h; simpa using h

theorem clean_take (pre s : Str) (n : Nat) (hn : 1 ≤ n) (h : Clean pre s) : Clean pre (s.take n) := by
  unfold Clean at *
  cases s with
  | nil => simpa using h
  | cons c cs =>
    rw [show n = (n - 1) + 1 by omega, List.take_succ_cons]
    simpa using h

/-- the invariant of the scanning loop -/
theorem scanOff_lines (cfg : Cfg) : ∀ (fuel : Nat) (st : LexState) (pre s : Str),
    Clean pre s →
    (∀ l, scanOff cfg fuel st (1 + countNewlines pre) pre.length s = .ok l →
      ∀ e ∈ l, e.1.line = 1 + countNewlines ((pre ++ s).take e.2)) ∧
    (∀ k ln, scanOff cfg fuel st (1 + countNewlines pre) pre.length s = .error (.err k ln) →
      ∃ off, off ≤ (pre ++ s).length ∧ ln = 1 + countNewlines ((pre ++ s).take off)) := by
  intro fuel
  induction fuel with
  | zero => intro st pre s _; exact ⟨fun l h => (by cases h), fun k ln h => (by cases h)⟩
  | succ fuel ih =>
    intro st pre s hcl
    cases s with
    | nil =>
      refine ⟨fun l h => ?_, fun k ln h => (by cases h)⟩
      simp only [scanOff] at h
      injection h with h; subst h
      intro e he; cases he
    | cons c cs =>
      have hok := C11_step_lines cfg st (1 + countNewlines pre) c cs
      have hprog := C11_step_progress cfg st (1 + countNewlines pre) c cs
      unfold scanOff
      cases hstep : step cfg st (1 + countNewlines pre) (c :: cs) with
      | err k =>
        refine ⟨fun l h => (by cases h), fun k' ln h => ?_⟩
        injection h with h; injection h with _ h2
        refine ⟨pre.length, by simp, ?_⟩
        rw [← h2]; simp
      | tok t n next lines =>
        rw [hstep] at hok hprog
        simp only [StepOK] at hok
        simp only [Step.consumed] at hprog
        have hmax : max n 1 = n := by omega
        simp only [hmax]
        have hseg : (c :: cs).take n ≠ [] := by
          rw [show n = (n - 1) + 1 by omega, List.take_succ_cons]; simp
        have hline : 1 + countNewlines pre + lines = 1 + countNewlines (pre ++ (c :: cs).take n) := by
          rw [countNewlines_append _ _ (clean_take pre (c :: cs) n hprog hcl), hok.1]; omega
        have happ : pre ++ (c :: cs).take n ++ (c :: cs).drop n = pre ++ c :: cs := by
          rw [List.append_assoc, List.take_append_drop]
        have hcl' : Clean (pre ++ (c :: cs).take n) ((c :: cs).drop n) := clean_append pre _ _ hseg hok.2
        have htl := step_tok_line cfg st _ _ t n next lines hstep
        by_cases hn : n ≤ (c :: cs).length
        · have hlen : pre.length + n = (pre ++ (c :: cs).take n).length := by
            simp only [List.length_append, List.length_take]; omega
          obtain ⟨i1, i2⟩ := ih next (pre ++ (c :: cs).take n) ((c :: cs).drop n) hcl'
          rw [hline, hlen]
          rw [happ] at i1 i2
          constructor
          · intro l h
            cases hr : scanOff cfg fuel next (1 + countNewlines (pre ++ (c :: cs).take n)) (pre ++ (c :: cs).take n).length ((c :: cs).drop n) with
            | error e => rw [hr] at h; cases h
            | ok l' =>
              rw [hr] at h
              simp only [Except.map] at h
              injection h with h; subst h
              intro e he
              rcases List.mem_cons.mp he with he | he
              · subst he
                simp only [htl, List.take_left']
              · exact i1 l' hr e he
          · intro k ln h
            cases hr : scanOff cfg fuel next (1 + countNewlines (pre ++ (c :: cs).take n)) (pre ++ (c :: cs).take n).length ((c :: cs).drop n) with
            | error e =>
              rw [hr] at h
              simp only [Except.map] at h
              injection h with h; subst h
              exact i2 k ln hr
            | ok l' => rw [hr] at h; cases h
        · -- the rule consumed the rest of the text: nothing follows
          have hd : (c :: cs).drop n = [] := List.drop_eq_nil_of_le (by omega)
          rw [hd]
          constructor
          · intro l h
            cases fuel with
            | zero => simp [scanOff, Except.map] at h
            | succ f =>
              simp only [scanOff, Except.map] at h
              injection h with h; subst h
              intro e he
              simp only [List.mem_singleton] at he
              subst he
              simp only [htl]
              rw [List.take_left' rfl]
          · intro k ln h
            cases fuel with
            | zero => simp [scanOff, Except.map] at h
            | succ f => simp [scanOff, Except.map] at h
      | skip n next lines =>
        rw [hstep] at hok hprog
        simp only [StepOK] at hok
        simp only [Step.consumed] at hprog
        have hmax : max n 1 = n := by omega
        simp only [hmax]
        have hseg : (c :: cs).take n ≠ [] := by
          rw [show n = (n - 1) + 1 by omega, List.take_succ_cons]; simp
        have hline : 1 + countNewlines pre + lines = 1 + countNewlines (pre ++ (c :: cs).take n) := by
          rw [countNewlines_append _ _ (clean_take pre (c :: cs) n hprog hcl), hok.1]; omega
        have happ : pre ++ (c :: cs).take n ++ (c :: cs).drop n = pre ++ c :: cs := by
          rw [List.append_assoc, List.take_append_drop]
        have hcl' : Clean (pre ++ (c :: cs).take n) ((c :: cs).drop n) := clean_append pre _ _ hseg hok.2
        by_cases hn : n ≤ (c :: cs).length
        · have hlen : pre.length + n = (pre ++ (c :: cs).take n).length := by
            simp only [List.length_append, List.length_take]; omega
          obtain ⟨i1, i2⟩ := ih next (pre ++ (c :: cs).take n) ((c :: cs).drop n) hcl'
          rw [hline, hlen]
          rw [happ] at i1 i2
          exact ⟨i1, i2⟩
        · have hd : (c :: cs).drop n = [] := List.drop_eq_nil_of_le (by omega)
          rw [hd]
          constructor
          · intro l h
            cases fuel with
            | zero => simp [scanOff] at h
            | succ f =>
              simp only [scanOff] at h
              injection h with h; subst h
              intro e he; cases he
          · intro k ln h
            cases fuel with
            | zero => simp [scanOff] at h
            | succ f => simp [scanOff] at h


/-- **C11_token_lines**: every token of a text carries the number of the line it starts on, and a lexer error is reported on the
line where scanning stopped: 1 + the number of line ends (LF, CR, CR LF counted once) in the text before that point - for every
text, in every layout. The tokens are those `lexAll` returns (`C11_token_lines_tokens`). -/
theorem C11_token_lines (cfg : Cfg) (text : Str) :
    (∀ l, scanOff cfg (text.length + 1) .initial 1 0 text = .ok l → ∀ e ∈ l, e.1.line = 1 + countNewlines (text.take e.2)) ∧
    (∀ k ln, scanOff cfg (text.length + 1) .initial 1 0 text = .error (.err k ln) →
      ∃ off, off ≤ text.length ∧ ln = 1 + countNewlines (text.take off)) := by
  have h := scanOff_lines cfg (text.length + 1) .initial [] text (by intro h; simp at h)
  simpa [countNewlines] using h

theorem C11_token_lines_tokens (cfg : Cfg) (text : Str) :
    (scanOff cfg (text.length + 1) .initial 1 0 text).map (List.map Prod.fst) = lexAll cfg text := by
  rw [lexAll_eq_scan, scanOff_tokens]

example : (scanOff ⟨[], [], 4294967295, 18446744073709551615, true⟩ 40 .initial 1 0 "a\r\n\nb -- c\r z".toList).map
    (List.map (fun e => (e.1.line, e.2))) = .ok [(1, 0), (3, 4), (4, 12)] := by decide +kernel

end Pysmi.Lexer
