import Pysmi.Generated.Pysnmp
/-!
# C06 / C05 — the pysnmp template writes the lists of a record as they are

The intermediate generator hands the template ordered lists (INDEX items, OBJECTS / NOTIFICATIONS / VARIABLES, the groups
of a compliance statement, range and size alternatives, revisions).  The theorems of `Props/C06.lean` are about those lists;
what the template does with them is decided here on `templateInnerLoops`, the table of every inner `for` loop of the
template and the filters applied to what it runs over, regenerated from the template on every run:

* `C06_template_lists_unfiltered`: no loop over one of those lists applies any filter (no `sort`, `unique`, `reverse`,
  `batch`, slice …) — each element is written, in list order;
* `C06_template_lists_present`: each of those lists is in fact written by some loop (the statement above is not vacuous);
* `C06_template_filters_known`: the only filter used anywhere is `sort`, on the items / values of the two name→number
  dictionaries (enumerations, BITS), whose order carries no meaning.
-/
namespace Pysmi.Generated.Pysnmp

/-- the lists whose order and membership the properties speak about, as the template spells them -/
def orderedLists : List String :=
  ["definition['indices']", "definition['objects']", "definition['modulecompliance']", "spec['range']", "spec['size']",
   "definition.get('revisions', ())"]

theorem C06_template_lists_unfiltered : ∀ p ∈ templateInnerLoops, p.1 ∈ orderedLists → p.2 = "" := by decide

theorem C06_template_lists_present : ∀ l ∈ orderedLists, ∃ p ∈ templateInnerLoops, p.1 = l := by decide

theorem C06_template_filters_known : ∀ p ∈ templateInnerLoops, p.2 = "" ∨
    (p.2 = "sort" ∧ p.1 ∈ ["spec['enumeration'].values()", "spec['enumeration'].items()", "definition['syntax']['bits'].items()"]) := by
  decide

end Pysmi.Generated.Pysnmp
