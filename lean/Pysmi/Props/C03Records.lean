import Pysmi.Generated.Records
/-!
# C03 — which clause of a declaration feeds which key of its record

`Generated/Records.lean` is rewritten on every run from the Python AST of the parser and of the intermediate code
generator: for every declaration clause, the grammar symbol that sits at each position of the tuple the parser action
builds, the handler `handlersTable` gives for the clause tag, the names that handler unpacks from its data, and for each
key of the record (`outDict[...]`) the unpacked names it is computed from; for every grammar symbol the tag its action puts
in front of the value; for every tag what its handler returns.

The theorems below are decided by the kernel over those tables: for every declaration kind, `status`, `maxaccess`, `units`,
`description`, `reference`, `name`, `oid`, object lists, revisions … of the record are computed from the name unpacked at the
position where the parser put the clause of that meaning, the tag of that clause is handled by a handler that returns its
argument unchanged (or through the text filter, which C15 covers), and `class` is the constant of the declaration kind.
Together with C02 (the tree carries each clause argument as written) this is "class, status, access, units … match the
declaration"; what remains outside is Python's tuple unpacking and dict assignment themselves.
-/
namespace Pysmi.Records
open Pysmi.Generated.Records

/-- the grammar symbol (right-hand side of the clause's production) whose value record key `key` of clause `tag` is
computed from, when it is computed from exactly one unpacked name -/
def feeds (tag key : String) : Option String :=
  match clauses.find? (·.1 == tag) with
  | none => none
  | some (_, _, pos, unpack, keys) =>
    match keys.find? (·.1 == key) with
    | some (_, [v]) => (unpack.idxOf? v).bind (pos[·]?)
    | _ => none

def classOf (tag : String) : Option (List String) :=
  (clauses.find? (·.1 == tag)).bind fun c => (c.2.2.2.2.find? (·.1 == "class")).map (·.2)

def kindOf (tag : String) : Option String := (handlerKind.find? (·.1 == tag)).map (·.2.2)
def tagOf (sym : String) : Option (List String) := (tagsOf.find? (·.1 == sym)).map (·.2)

/-- every handler unpacks exactly as many names as the parser action puts values into the clause tuple -/
theorem C03_arity : clauses.all (fun c => c.2.2.1.length == c.2.2.2.1.length) = true := by decide

/-- **C03_record_class**: the `class` of a record is the constant of its declaration kind -/
theorem C03_record_class :
    [("agentCapabilitiesClause", "agentcapabilities"), ("moduleComplianceClause", "modulecompliance"),
     ("moduleIdentityClause", "moduleidentity"), ("notificationGroupClause", "notificationgroup"),
     ("notificationTypeClause", "notificationtype"), ("objectGroupClause", "objectgroup"),
     ("objectIdentityClause", "objectidentity"), ("objectTypeClause", "objecttype"), ("trapTypeClause", "notificationtype"),
     ("typeDeclaration", "type"), ("valueDeclaration", "objectidentity")].all
      (fun p => classOf p.1 == some ["const:" ++ p.2]) = true := by decide

/-- **C03_record_fields**: each key is computed from the clause of that meaning -/
theorem C03_record_fields :
    [ -- STATUS
      ("agentCapabilitiesClause", "status", "Status"), ("moduleComplianceClause", "status", "Status"),
      ("notificationGroupClause", "status", "Status"), ("notificationTypeClause", "status", "Status"),
      ("objectGroupClause", "status", "Status"), ("objectIdentityClause", "status", "Status"),
      ("objectTypeClause", "status", "Status"),
      -- MAX-ACCESS / ACCESS, UNITS, SYNTAX, DEFVAL, INDEX of an OBJECT-TYPE
      ("objectTypeClause", "maxaccess", "MaxOrPIBAccessPart"), ("objectTypeClause", "units", "UnitsPart"),
      ("objectTypeClause", "syntax", "Syntax"), ("objectTypeClause", "default", "DefValPart"),
      ("objectTypeClause", "indices", "MibIndex"),
      -- DESCRIPTION and REFERENCE
      ("agentCapabilitiesClause", "description", "(DESCRIPTION Text)"), ("moduleComplianceClause", "description", "(DESCRIPTION Text)"),
      ("moduleIdentityClause", "description", "(DESCRIPTION Text)"), ("notificationGroupClause", "description", "(DESCRIPTION Text)"),
      ("notificationTypeClause", "description", "(DESCRIPTION Text)"), ("objectGroupClause", "description", "(DESCRIPTION Text)"),
      ("objectIdentityClause", "description", "(DESCRIPTION Text)"), ("objectTypeClause", "description", "descriptionClause"),
      ("trapTypeClause", "description", "DescrPart"),
      ("agentCapabilitiesClause", "reference", "ReferPart"), ("moduleComplianceClause", "reference", "ReferPart"),
      ("notificationGroupClause", "reference", "ReferPart"), ("notificationTypeClause", "reference", "ReferPart"),
      ("objectGroupClause", "reference", "ReferPart"), ("objectIdentityClause", "reference", "ReferPart"),
      ("objectTypeClause", "reference", "ReferPart"), ("trapTypeClause", "reference", "ReferPart"),
      -- MODULE-IDENTITY
      ("moduleIdentityClause", "lastupdated", "(LAST_UPDATED ExtUTCTime)"), ("moduleIdentityClause", "organization", "(ORGANIZATION Text)"),
      ("moduleIdentityClause", "contactinfo", "(CONTACT_INFO Text)"), ("moduleIdentityClause", "revisions", "RevisionPart"),
      -- lists
      ("notificationGroupClause", "objects", "NotificationsPart"), ("notificationTypeClause", "objects", "NotificationObjectsPart"),
      ("objectGroupClause", "objects", "ObjectGroupObjectsPart"), ("trapTypeClause", "objects", "VarPart"),
      ("moduleComplianceClause", "modulecompliance", "ComplianceModulePart"),
      ("agentCapabilitiesClause", "productrelease", "(PRODUCT_RELEASE Text)"),
      -- the name and the OID value
      ("objectTypeClause", "name", "LOWERCASE_IDENTIFIER"), ("objectIdentityClause", "name", "LOWERCASE_IDENTIFIER"),
      ("moduleIdentityClause", "name", "LOWERCASE_IDENTIFIER"), ("objectGroupClause", "name", "LOWERCASE_IDENTIFIER"),
      ("notificationGroupClause", "name", "LOWERCASE_IDENTIFIER"), ("moduleComplianceClause", "name", "LOWERCASE_IDENTIFIER"),
      ("agentCapabilitiesClause", "name", "LOWERCASE_IDENTIFIER"), ("notificationTypeClause", "name", "fuzzy_lowercase_identifier"),
      ("trapTypeClause", "name", "fuzzy_lowercase_identifier"), ("valueDeclaration", "name", "fuzzy_lowercase_identifier"),
      ("typeDeclaration", "name", "typeName"),
      ("objectTypeClause", "oid", "ObjectName"), ("objectIdentityClause", "oid", "objectIdentifier"),
      ("moduleIdentityClause", "oid", "objectIdentifier"), ("objectGroupClause", "oid", "objectIdentifier"),
      ("notificationGroupClause", "oid", "objectIdentifier"), ("moduleComplianceClause", "oid", "objectIdentifier"),
      ("agentCapabilitiesClause", "oid", "objectIdentifier"), ("notificationTypeClause", "oid", "NotificationName"),
      ("valueDeclaration", "oid", "objectIdentifier")
    ].all (fun t => feeds t.1 t.2.1 == some t.2.2) = true := by decide

/-- **C03_clause_values**: the value of a STATUS / MAX-ACCESS / LAST-UPDATED / DISPLAY-HINT clause reaches the handler of the
declaration unchanged (the tag's handler returns its argument); UNITS, DESCRIPTION, REFERENCE, ORGANIZATION, CONTACT-INFO and
PRODUCT-RELEASE (since repair of the handler in /repo; it used to be handed on as written) go through the text filter and
nothing else.  A DISPLAY-HINT is a format, not prose: blanks in it are separators to be printed. -/
theorem C03_clause_values :
    (["Status", "MaxAccessPart", "LAST-UPDATED", "DISPLAY-HINT"].all (fun t => kindOf t == some "identity") &&
     ["UNITS", "DESCRIPTION", "REFERENCE", "ORGANIZATION", "CONTACT-INFO", "PRODUCT-RELEASE"].all (fun t => kindOf t == some "filtered")) = true := by
  decide

/-- the tags the parser puts in front of those values are the ones `handlersTable` dispatches on -/
theorem C03_clause_tags :
    ([("Status", ["Status"]), ("MaxAccessPart", ["MaxAccessPart"]), ("UnitsPart", ["=UNITS"]), ("ReferPart", ["=REFERENCE"]),
      ("descriptionClause", ["=DESCRIPTION"]), ("DescrPart", ["=DESCRIPTION"]), ("DefValPart", ["=DEFVAL"]), ("MibIndex", ["=INDEX"]),
      ("Revisions", ["Revisions"]), ("Objects", ["Objects"]), ("Notifications", ["Notifications"]), ("VarTypes", ["VarTypes"]),
      ("objectIdentifier", ["objectIdentifier"])].all (fun p => tagOf p.1 == some p.2)) = true := by decide

end Pysmi.Records
