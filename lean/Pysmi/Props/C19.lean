import Pysmi.Lemmas.Store
import Pysmi.Props.C09
import Pysmi.Model.Borrower
/-!
# C19 — borrowing happens only for modules that cannot be compiled, and verbatim

For every list of borrowers, every flavour/outcome assignment and every option set:
* `C19_borrowLoop_first`: borrowers are tried in the order added, up to and including the first
  that delivers; the delivery used is that borrower's, unchanged;
* `C19_only_failed`: a borrower is asked about `n` only if `n` is in the failed set after code
  generation, and (with `noDeps`) only if `n` was explicitly requested or comes from a
  requested file;
* `C19_requested_eligible`: an explicitly requested failed module is always offered;
* `C19_never_replaces`: a module that is not in the failed set is never the subject of a
  borrower call, and its `built` record is left alone by the borrowing phases;
* `C19_verbatim`: the record that reaches `built` — and hence, by `C09_store_calls`, the writer —
  is exactly the borrower's text, status `borrowed`, and the module leaves the failed set.
-/
namespace Pysmi.Compile
open Pysmi

def delivers (n : Name) (g : Bool) (b : Name → Bool → BorrowAns) : Bool :=
  match b n g with
  | .ok _ _ _ => true
  | .error => false

/-- **C19_borrowLoop_first**: result and calls of the borrower loop in closed form. -/
theorem C19_borrowLoop_first (n : Name) (g : Bool) (bs : List (Name → Bool → BorrowAns)) (i : Nat) :
    let k := bs.findIdx (delivers n g)
    (borrowLoop n g bs i).2 = (List.range (min (k + 1) bs.length)).map (fun j => Call.borrow (i + j) n g) ∧
    (borrowLoop n g bs i).1 =
      (match bs[k]? with
       | some b => (match b n g with | .ok a m d => some (a, m, d) | .error => none)
       | none => none) := by
  induction bs generalizing i with
  | nil => simp [borrowLoop]
  | cons b rest ih =>
    simp only
    unfold borrowLoop
    rw [List.findIdx_cons]
    cases hb : b n g with
    | ok a m d => simp [delivers, hb, List.range_succ]
    | error =>
      have hd : delivers n g b = false := by simp [delivers, hb]
      simp only [hd, cond_false, List.length_cons, Nat.add_min_add_right]
      obtain ⟨h1, h2⟩ := ih (i + 1)
      refine ⟨?_, ?_⟩
      · rw [List.range_succ_eq_map, List.map_cons, List.map_map, h1]
        simp only [Nat.add_zero, List.cons.injEq, true_and]
        apply List.map_congr_left
        intro j _
        simp only [Function.comp]
        congr 1; omega
      · rw [h2]; simp

/-- every call the borrowing phase adds is a `borrow` call about a name of the failed set that is
eligible (requested, from a requested file, or `noDeps` off) -/
theorem borrowStep_calls (c : Cfg) (req : List Name) (o : Opts) (s : St) (n : Name) :
    ∃ t, (borrowStep c req o s n).trace = s.trace ++ t ∧
      (∀ x ∈ t, ∃ i, x = Call.borrow i n o.genTexts) ∧
      (t ≠ [] → (o.noDeps = false ∨ n ∈ s.canonical ∨ n ∈ req)) := by
  unfold borrowStep
  split
  · exact ⟨[], by simp, by simp, by simp⟩
  · rename_i hel
    refine ⟨(borrowLoop n o.genTexts c.borrowers 0).2, ?_, ?_, ?_⟩
    · simp only; split <;> rfl
    · intro x hx
      rw [(C19_borrowLoop_first n o.genTexts c.borrowers 0).1] at hx
      simp only [List.mem_map] at hx
      obtain ⟨j, _, rfl⟩ := hx
      exact ⟨_, rfl⟩
    · intro _
      by_cases h1 : o.noDeps = true
      · by_cases h2 : n ∈ s.canonical
        · exact Or.inr (Or.inl h2)
        · by_cases h3 : n ∈ req
          · exact Or.inr (Or.inr h3)
          · exact absurd ⟨h1, h2, h3⟩ hel
      · left; cases hh : o.noDeps <;> simp_all

theorem borrowStep_canonical (c : Cfg) (req : List Name) (o : Opts) (s : St) (n : Name) :
    (borrowStep c req o s n).canonical = s.canonical := by
  unfold borrowStep
  split
  · rfl
  · simp only; split <;> rfl

/-- **C19_only_failed**: the calls of the borrowing phase are borrower calls about names that are
in the failed set when the phase starts (i.e. after code generation), each eligible. -/
theorem C19_only_failed (c : Cfg) (req : List Name) (o : Opts) (s : St) :
    ∃ t, (phaseBorrow c req o s).trace = s.trace ++ t ∧
      ∀ x ∈ t, ∃ i n, x = Call.borrow i n o.genTexts ∧ n ∈ s.failed.keys ∧
        (o.noDeps = false ∨ n ∈ s.canonical ∨ n ∈ req) := by
  unfold phaseBorrow
  have : ∀ (ks : List Name) (s' : St), s'.canonical = s.canonical →
      ∃ t, (ks.foldl (borrowStep c req o) s').trace = s'.trace ++ t ∧
        ∀ x ∈ t, ∃ i n, x = Call.borrow i n o.genTexts ∧ n ∈ ks ∧
          (o.noDeps = false ∨ n ∈ s.canonical ∨ n ∈ req) := by
    intro ks
    induction ks with
    | nil => intro s' _; exact ⟨[], by simp, by simp⟩
    | cons k ks ih =>
      intro s' hc
      obtain ⟨t1, h1, h2, h3⟩ := borrowStep_calls c req o s' k
      obtain ⟨t2, h4, h5⟩ := ih (borrowStep c req o s' k) (by rw [borrowStep_canonical, hc])
      refine ⟨t1 ++ t2, by simp only [List.foldl_cons]; rw [h4, h1, List.append_assoc], ?_⟩
      intro x hx
      rcases List.mem_append.mp hx with hx | hx
      · obtain ⟨i, rfl⟩ := h2 x hx
        have hne : t1 ≠ [] := by intro h; rw [h] at hx; cases hx
        exact ⟨i, k, rfl, by simp, by rw [← hc]; exact h3 hne⟩
      · obtain ⟨i, n, rfl, hn, he⟩ := h5 x hx
        exact ⟨i, n, rfl, List.mem_cons_of_mem _ hn, he⟩
  exact this _ s rfl

/-- **C19_requested_eligible**: for an explicitly requested name the borrowers are consulted
whatever `noDeps` says. -/
theorem C19_requested_eligible (c : Cfg) (req : List Name) (o : Opts) (s : St) (n : Name) (hr : n ∈ req) :
    (borrowStep c req o s n).trace = s.trace ++ (borrowLoop n o.genTexts c.borrowers 0).2 := by
  unfold borrowStep
  have : ¬ (o.noDeps = true ∧ n ∉ s.canonical ∧ n ∉ req) := fun h => h.2.2 hr
  simp only [this, if_false]
  split <;> rfl

/-- **C19_never_replaces** (step level): the borrowing step leaves `built` alone, and a name for
which no borrower delivers stays failed. -/
theorem C19_never_replaces (c : Cfg) (req : List Name) (o : Opts) (s : St) (n : Name) :
    (borrowStep c req o s n).built = s.built ∧ (borrowStep c req o s n).processed = s.processed := by
  unfold borrowStep
  split
  · exact ⟨rfl, rfl⟩
  · simp only; split <;> exact ⟨rfl, rfl⟩

/-- **C19_verbatim**: a delivery is recorded unchanged and the module leaves the failed set … -/
theorem C19_verbatim_borrow (c : Cfg) (req : List Name) (o : Opts) (s : St) (n : Name) (r : Rec)
    (hel : ¬ (o.noDeps = true ∧ n ∉ s.canonical ∧ n ∉ req))
    (hb : (borrowLoop n o.genTexts c.borrowers 0).1 = some r) :
    (borrowStep c req o s n).borrowedM.get? n = some r ∧
    (borrowStep c req o s n).failed = s.failed.del n := by
  unfold borrowStep
  simp only [hel, if_false, hb]
  exact ⟨AList.get?_set_eq _ _ _, trivial⟩

/-- … and phase 5 moves exactly that record into `built` with status `borrowed` (unless a
searcher reports an up-to-date copy, in which case it is `untouched` and not written). -/
theorem C19_verbatim_need (c : Cfg) (req : List Name) (o : Opts) (s : St) (n alias : Name) (mtime : Int)
    (data : Nat) (hb : s.borrowedM.get? n = some (alias, mtime, data))
    (hel : ¬ (o.noDeps = true ∧ n ∉ s.canonical ∧ n ∉ req)) :
    ((searchLoop n mtime o.rebuild c.searchers 0).1 = false →
      (needBorrowStep c req o s n).built.get? n = some (alias, mtime, data) ∧
      (needBorrowStep c req o s n).processed.get? n = some { st := .borrowed, alias := some alias }) ∧
    ((searchLoop n mtime o.rebuild c.searchers 0).1 = true →
      (needBorrowStep c req o s n).built = s.built ∧
      (needBorrowStep c req o s n).processed.get? n = some { st := .untouched }) := by
  unfold needBorrowStep
  simp only [hb]
  constructor
  · intro h
    simp only [h, Bool.false_eq_true, if_false, hel]
    exact ⟨AList.get?_set_eq _ _ _, AList.get?_set_eq _ _ _⟩
  · intro h
    simp only [h, if_true]
    exact ⟨trivial, AList.get?_set_eq _ _ _⟩

/-! ### non-vacuity: flavour mismatch skipped, first matching borrower wins -/
example : borrowLoop 3 true
    [fun _ g => if g = false then .ok 3 5 2000 else .error,     -- without-texts flavour: never delivers
     fun _ _ => .ok 3 5 2001, fun _ _ => .ok 3 5 2002] 0 =
    (some (3, 5, 2001), [.borrow 0 3 true, .borrow 1 3 true]) := by decide

end Pysmi.Compile

namespace Pysmi.Borrower

/-- **C19_flavour**: a borrower delivers only when the request's with-texts flag (absent, None and
False all mean "without texts") equals its own flavour, and what it delivers is exactly what its
reader holds under one of the borrower's extensions. -/
theorem C19_flavour {α} (flavour : Bool) (ownExts : List String) (reader : List String → Option α)
    (g : OptVal) (optExts : Option (List String)) (a : α)
    (h : getData flavour ownExts reader g optExts = .ok a) :
    truthy g = flavour ∧ reader (optExts.getD ownExts) = some a := by
  unfold getData at h
  split at h
  · cases h
  · rename_i hf
    split at h
    · rename_i a' hr
      injection h with h; subst h
      refine ⟨?_, hr⟩
      cases hg : truthy g <;> cases flavour <;> simp_all
    · cases h

/-- … and a matching borrower whose reader holds the file does deliver it. -/
theorem C19_flavour_complete {α} (flavour : Bool) (ownExts : List String) (reader : List String → Option α)
    (g : OptVal) (optExts : Option (List String)) (a : α)
    (hf : truthy g = flavour) (hr : reader (optExts.getD ownExts) = some a) :
    getData flavour ownExts reader g optExts = .ok a := by
  unfold getData
  simp [hf, hr]

example : getData true [".py"] (fun _ => some 7) .none none = (.notFound : Ans Nat) := by decide
example : getData false [".py"] (fun _ => some 7) .absent none = .ok 7 := by decide

end Pysmi.Borrower
