import Pysmi.Generated.Skeletons
/-!
# Pins (C19): the control skeletons the hand-written models were written against

`Generated/Skeletons.lean` is rewritten from the source on every run (calls other than logging and pure builtins, raises with
their exception class, returns, loops, branches, handlers - in source order).  Each hand-written model follows one of these
methods; the literal below is the skeleton it was written against.  A structural change of the method breaks its pin - which
is not by itself a violation: the check then searches model and code for a failing input and reports what it finds.
-/
namespace Pysmi.Pins.SkelC19
open Pysmi.Generated.Skeletons

/-- AbstractBorrower.getData (pysmi/borrower/base.py) -/
theorem pin_anyFileBorrower : anyFileBorrower = [
    "if", "call:options.get", "raise:error.PySmiFileNotFoundError", "call:error.PySmiFileNotFoundError", "if",
    "return:value", "call:self._reader.getData"] := by decide

end Pysmi.Pins.SkelC19
