import Pysmi.Generated.Skeletons
/-!
# Pins (C20): the control skeletons the hand-written models and oracles were written against

`Generated/Skeletons.lean` is rewritten from the source on every run (calls other than logging, string plumbing and pure
builtins, raises with their exception class, returns, loops, branches, handlers - in source order; for the scripts also the
exit status of every `sys.exit`).  A structural change of one of these methods breaks its pin - which is not by itself a
violation: the check then searches model and code for a failing input and reports what it finds.
(Literals written by harness/tools/repin.py when the models were last brought in line with the source.)
-/
namespace Pysmi.Pins.SkelC20
open Pysmi.Generated.Skeletons

/-- . (scripts/mibdump.py) -/
theorem pin_mibdumpScript : mibdumpScript = [
    "call:getopt.getopt", "except:getopt.GetoptError", "if", "call:sys.exc_info", "call:sys.exit(EX_USAGE)", "loop",
    "if", "call:sys.exit(EX_OK)", "if", "call:sys.exit(EX_OK)", "if", "if", "call:opt[1].split",
    "except:error.PySmiError", "call:sys.exc_info", "call:sys.exit(EX_USAGE)", "if", "call:mibSources.append", "if",
    "call:mibSearchers.append", "if", "call:mibStubs.append", "if", "call:mibBorrowers.append", "if", "if", "if",
    "if", "if", "if", "if", "except:ValueError", "call:sys.exit(EX_USAGE)", "if", "if", "if", "if", "if", "if", "if",
    "if", "if", "if", "call:os.path.abspath", "call:os.path.dirname", "call:os.path.basename",
    "call:os.path.splitext", "if", "call:sys.exit(EX_USAGE)", "call:getReadersFromUrls", "except:error.PySmiError",
    "call:sys.exc_info", "call:sys.exit(EX_USAGE)", "if", "if", "call:sys.exit(EX_USAGE)", "if", "if", "if", "if",
    "if", "call:os.path.expanduser", "if", "call:PyFileBorrower", "call:getReadersFromUrls", "call:PyFileSearcher",
    "loop", "call:searchers.append", "call:PyPackageSearcher", "call:searchers.append", "call:StubSearcher",
    "call:PySnmpCodeGen", "call:PyFileWriter", "call:PyFileWriter(dstDirectory).setOptions", "if", "if", "if", "if",
    "call:AnyFileBorrower", "call:getReadersFromUrls", "call:AnyFileSearcher",
    "call:AnyFileSearcher(dstDirectory).setOptions", "call:StubSearcher", "call:JsonCodeGen", "call:FileWriter",
    "call:FileWriter(dstDirectory).setOptions", "if", "if", "if", "if", "call:NullCodeGen", "call:StubSearcher",
    "call:AnyFileBorrower", "call:getReadersFromUrls", "call:CallbackWriter", "call:sys.exit(EX_USAGE)", "if",
    "call:MibCompiler", "call:SmiV1CompatParser", "call:mibCompiler.addSources", "call:getReadersFromUrls",
    "call:mibCompiler.addSearchers", "call:mibCompiler.addBorrowers", "call:mibCompiler.compile", "if",
    "call:mibCompiler.buildIndex", "except:error.PySmiError", "call:sys.exc_info", "call:sys.exit(EX_SOFTWARE)", "if",
    "if", "call:processed.values", "if", "call:processed.values", "call:sys.exit(exitCode)"] := by decide

/-- . (scripts/mibcopy.py) -/
theorem pin_mibcopyScript : mibcopyScript = [
    "call:getopt.getopt", "except:getopt.GetoptError", "call:sys.exit(EX_USAGE)", "loop", "if",
    "call:sys.exit(EX_OK)", "if", "call:sys.exit(EX_OK)", "if", "if", "if", "call:opt[1].split", "if",
    "call:mibSources.append", "if", "if", "if", "if", "if", "call:sys.exit(EX_USAGE)", "call:os.path.abspath",
    "call:inputMibs.pop", "if", "call:os.path.exists", "call:os.path.isdir", "call:sys.exit(EX_USAGE)", "if",
    "call:os.makedirs", "except:OSError", "call:JsonCodeGen", "call:SmiV1CompatParser", "call:CallbackWriter",
    "call:MibCompiler", "call:mibCompiler.addSources", "call:FileReader", "call:getReadersFromUrls",
    "call:mibCompiler.compile", "except:error.PySmiError", "call:sys.exc_info", "call:sys.exit(EX_SOFTWARE)", "loop",
    "if", "call:datetime.strptime", "except:Exception", "call:datetime.fromtimestamp", "return:value",
    "raise:error.PySmiError", "call:error.PySmiError", "if", "return:value", "return:value", "loop", "if", "if",
    "call:os.path.isfile", "call:os.path.abspath", "call:os.path.dirname", "call:os.path.basename",
    "call:os.path.abspath", "call:os.walk", "loop", "call:getMibRevision", "except:error.PySmiError", "if", "if",
    "call:shortenPath", "if", "call:getMibRevision", "except:error.PySmiError", "if", "if", "if", "if",
    "call:shortenPath", "if", "if", "call:shutil.copy", "except:Exception", "if", "if", "call:shortenPath", "if",
    "call:shortenPath", "if", "call:sys.exit(EX_OK)"] := by decide

end Pysmi.Pins.SkelC20
