import Pysmi.Generated.Skeletons
/-!
# Pins (C04): the control skeletons the hand-written models and oracles were written against

`Generated/Skeletons.lean` is rewritten from the source on every run (calls other than logging, string plumbing and pure
builtins, raises with their exception class, returns, loops, branches, handlers - in source order; for the scripts also the
exit status of every `sys.exit`).  A structural change of one of these methods breaks its pin - which is not by itself a
violation: the check then searches model and code for a failing input and reports what it finds.
(Literals written by harness/tools/repin.py when the models were last brought in line with the source.)
-/
namespace Pysmi.Pins.SkelC04
open Pysmi.Generated.Skeletons

/-- PySnmpCodeGen.genCode (pysmi/codegen/pysnmp.py) -/
theorem pin_pysnmpGenCode : pysnmpGenCode = [
    "call:IntermediateCodeGen.genCode", "loop", "call:context.get", "call:context.get('imports', {}).items", "if",
    "loop", "if", "call:imports[module].extend", "call:imports[module].append", "loop", "call:dct.items", "if",
    "call:translateOids", "if", "call:value.split", "call:translateOids", "loop", "call:context.items",
    "call:x[1].get", "call:os.path.dirname", "call:kwargs.get", "if", "call:searchPath.insert",
    "call:os.path.dirname", "call:os.path.abspath", "call:jinja2.Environment", "call:jinja2.FileSystemLoader",
    "call:env.get_template", "call:tmpl.render", "except:jinja2.exceptions.TemplateError", "call:sys.exc_info",
    "raise:error.PySmiCodegenError", "call:error.PySmiCodegenError", "return:value"] := by decide

end Pysmi.Pins.SkelC04
