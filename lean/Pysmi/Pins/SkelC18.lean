import Pysmi.Generated.Skeletons
/-!
# Pins (C18): the control skeletons the hand-written models and oracles were written against

`Generated/Skeletons.lean` is rewritten from the source on every run (calls other than logging, string plumbing and pure
builtins, raises with their exception class, returns, loops, branches, handlers - in source order; for the scripts also the
exit status of every `sys.exit`).  A structural change of one of these methods breaks its pin - which is not by itself a
violation: the check then searches model and code for a failing input and reports what it finds.
(Literals written by harness/tools/repin.py when the models were last brought in line with the source.)
-/
namespace Pysmi.Pins.SkelC18
open Pysmi.Generated.Skeletons

/-- JsonCodeGen.genIndex (pysmi/codegen/jsondoc.py) -/
theorem pin_jsonGenIndex : jsonGenIndex = [
    "if", "call:kwargs.get", "call:outDict.update", "call:json.loads", "except:Exception",
    "raise:error.PySmiCodegenError", "call:error.PySmiCodegenError", "call:sys.exc_info", "if", "loop",
    "call:x.split", "call:order", "except:ValueError", "loop", "call:order", "return:value", "if", "loop",
    "call:new_top.append", "call:order", "return:value", "return:value", "loop", "call:processed.items", "if", "if",
    "call:modData[identity_oid].append", "if", "if", "call:modData[enterprise_oid].append", "loop", "if",
    "call:modData[compliance_oid].append", "loop", "if", "call:modData[object_oid].append", "if", "loop",
    "call:x.count", "loop", "call:unique_prefixes.items", "if", "call:oid.startswith", "call:set(modules).issuperset",
    "if", "return:value", "call:json.dumps", "call:order"] := by decide

/-- MibCompiler.buildIndex (pysmi/compiler.py) -/
theorem pin_buildIndex : buildIndex = [
    "call:self._get_system_info", "call:time.asctime", "call:sys.version.split", "call:self._writer.putData",
    "call:self._codegen.genIndex", "call:self._writer.getData", "call:options.get", "except:error.PySmiError",
    "call:sys.exc_info", "if", "call:options.get", "return", "if", "raise:exc.with_traceback",
    "call:exc.with_traceback", "raise:exc"] := by decide

end Pysmi.Pins.SkelC18
