import Pysmi.Generated.Skeletons
/-!
# Pins (C06): the control skeletons the hand-written models and oracles were written against

`Generated/Skeletons.lean` is rewritten from the source on every run (calls other than logging, string plumbing and pure
builtins, raises with their exception class, returns, loops, branches, handlers - in source order; for the scripts also the
exit status of every `sys.exit`).  A structural change of one of these methods breaks its pin - which is not by itself a
violation: the check then searches model and code for a failing input and reports what it finds.
(Literals written by harness/tools/repin.py when the models were last brought in line with the source.)
-/
namespace Pysmi.Pins.SkelC06
open Pysmi.Generated.Skeletons

/-- IntermediateCodeGen.genObjects (pysmi/codegen/intermediate.py) -/
theorem pin_genObjects : genObjects = [
    "if", "return:value", "call:self.transOpers", "return:value"] := by decide

/-- IntermediateCodeGen.genTableIndex (pysmi/codegen/intermediate.py) -/
theorem pin_genTableIndex : genTableIndex = [
    "call:self.SMI_TYPES.get", "call:self.transOpers", "return:value", "loop", "if", "call:genFakeSyms",
    "call:fakeStrlist.append", "call:fakeSyms.append", "call:self.transOpers", "call:self._importMap.get",
    "call:idxStrlist.append", "return:value"] := by decide

/-- IntermediateCodeGen.genCompliances (pysmi/codegen/intermediate.py) -/
theorem pin_genCompliances : genCompliances = [
    "loop", "call:self.transOpers", "return:value"] := by decide

/-- IntermediateCodeGen.genObjectType (pysmi/codegen/intermediate.py) -/
theorem pin_genObjectType : genObjectType = [
    "call:self.genLabel", "call:self.transOpers", "call:self.genDefVal", "if", "if", "if", "if", "if", "if", "if",
    "if", "call:self.transOpers", "if", "if", "call:self.regSym", "return:value"] := by decide

end Pysmi.Pins.SkelC06
