import Pysmi.Generated.Skeletons
/-!
# Pins (C10): the control skeletons the hand-written models and oracles were written against

`Generated/Skeletons.lean` is rewritten from the source on every run (calls other than logging, string plumbing and pure
builtins, raises with their exception class, returns, loops, branches, handlers - in source order; for the scripts also the
exit status of every `sys.exit`).  A structural change of one of these methods breaks its pin - which is not by itself a
violation: the check then searches model and code for a failing input and reports what it finds.
(Literals written by harness/tools/repin.py when the models were last brought in line with the source.)
-/
namespace Pysmi.Pins.SkelC10
open Pysmi.Generated.Skeletons

/-- AnyFileSearcher.fileExists (pysmi/searcher/anyfile.py) -/
theorem pin_anyFileSearcher : anyFileSearcher = [
    "if", "return", "loop", "if", "call:os.path.exists", "call:os.path.isfile", "call:os.stat", "except:OSError",
    "raise:error.PySmiSearcherError", "call:error.PySmiSearcherError", "call:sys.exc_info", "call:time.strftime",
    "call:time.gmtime", "if", "raise:error.PySmiFileNotModifiedError", "call:error.PySmiFileNotModifiedError",
    "raise:error.PySmiFileNotFoundError", "call:error.PySmiFileNotFoundError"] := by decide

/-- PyFileSearcher.fileExists (pysmi/searcher/pyfile.py) -/
theorem pin_pyFileSearcher : pyFileSearcher = [
    "if", "return", "loop", "if", "call:os.path.exists", "call:os.path.isfile", "call:open", "call:fp.read",
    "call:fp.close", "except:IOError", "raise:error.PySmiSearcherError", "call:error.PySmiSearcherError",
    "call:sys.exc_info", "if", "if", "if", "call:struct.unpack", "call:struct.unpack", "call:time.strftime",
    "call:time.gmtime", "if", "raise:error.PySmiFileNotModifiedError", "call:error.PySmiFileNotModifiedError", "loop",
    "if", "call:os.path.exists", "call:os.path.isfile", "call:os.stat", "except:OSError",
    "raise:error.PySmiSearcherError", "call:error.PySmiSearcherError", "call:sys.exc_info", "call:time.strftime",
    "call:time.gmtime", "if", "raise:error.PySmiFileNotModifiedError", "call:error.PySmiFileNotModifiedError",
    "raise:error.PySmiFileNotFoundError", "call:error.PySmiFileNotFoundError"] := by decide

/-- StubSearcher.fileExists (pysmi/searcher/stub.py) -/
theorem pin_stubSearcher : stubSearcher = [
    "if", "raise:error.PySmiFileNotModifiedError", "call:error.PySmiFileNotModifiedError",
    "raise:error.PySmiFileNotFoundError", "call:error.PySmiFileNotFoundError"] := by decide

end Pysmi.Pins.SkelC10
