import Pysmi.Generated.LexTables
/-!
Pins: what the hand-written lexer model (Model/Lexer.lean) assumes about pysmi/lexer/smi.py, stated as
definitional equalities against the tables regenerated from the source on every run. If a regular
expression, the rule order, the literals, the ignored characters, the state list or a numeric bound
changes in the source, this file stops compiling and the checks that rest on the lexer model say so.
-/
namespace Pysmi.Pins.Lex

def expected_rules : List (String × String) := [
  ("t_newline", "\\r\\n|\\n|\\r"), ("t_MACRO", "MACRO"),
  ("t_macro_newline", "\\r\\n|\\n|\\r"), ("t_macro_END", "END"),
  ("t_macro_body", ".+?(?=END)"), ("t_EXPORTS", "EXPORTS"),
  ("t_exports_newline", "\\r\\n|\\n|\\r"), ("t_exports_end", ";"),
  ("t_exports_body", "[^;]+"), ("t_CHOICE", "CHOICE"),
  ("t_choice_newline", "\\r\\n|\\n|\\r"), ("t_choice_end", "\\}"),
  ("t_choice_body", "[^\\}]+"), ("t_begin_comment", "--"),
  ("t_comment_newline", "\\r\\n|\\n|\\r"), ("t_comment_body", "[^\\r\\n]+"),
  ("t_UPPERCASE_IDENTIFIER", "[A-Z][-a-zA-z0-9]*"), ("t_LOWERCASE_IDENTIFIER", "[0-9]*[a-z][-a-zA-z0-9]*"),
  ("t_NUMBER", "-?[0-9]+"), ("t_BIN_STRING", "\\'[01]*\\'[bB]"),
  ("t_HEX_STRING", "\\'[0-9a-fA-F]*\\'[hH]"), ("t_QUOTED_STRING", "\\\"[^\\\"]*\\\""),
  ("t_DOT_DOT", "\\.\\."), ("t_COLON_COLON_EQUAL", "::=")]
def expected_literals : String := "[]{}():;,-.|"
def expected_ignore : String := " \t"
def expected_states : List (String × String) := [
  ("macro", "exclusive"), ("choice", "exclusive"), ("exports", "exclusive"), ("comment", "exclusive")]
def expected_u32max : Nat := 4294967295
def expected_u64max : Nat := 18446744073709551615
def expected_macroErrorRule : Bool := true

theorem pin_rules : Pysmi.Generated.Lex.rules = expected_rules := rfl
theorem pin_literals : Pysmi.Generated.Lex.literals = expected_literals := rfl
theorem pin_ignore : Pysmi.Generated.Lex.ignore = expected_ignore := rfl
theorem pin_states : Pysmi.Generated.Lex.states = expected_states := rfl
theorem pin_u32max : Pysmi.Generated.Lex.u32max = expected_u32max := rfl
theorem pin_u64max : Pysmi.Generated.Lex.u64max = expected_u64max := rfl
theorem pin_macroErrorRule : Pysmi.Generated.Lex.macroErrorRule = expected_macroErrorRule := rfl

end Pysmi.Pins.Lex
