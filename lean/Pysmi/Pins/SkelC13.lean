import Pysmi.Generated.Skeletons
/-!
# Pins (C13): the control skeletons the hand-written models and oracles were written against

`Generated/Skeletons.lean` is rewritten from the source on every run (calls other than logging, string plumbing and pure
builtins, raises with their exception class, returns, loops, branches, handlers - in source order; for the scripts also the
exit status of every `sys.exit`).  A structural change of one of these methods breaks its pin - which is not by itself a
violation: the check then searches model and code for a failing input and reports what it finds.
(Literals written by harness/tools/repin.py when the models were last brought in line with the source.)
-/
namespace Pysmi.Pins.SkelC13
open Pysmi.Generated.Skeletons

/-- FileWriter.putData (pysmi/writer/localfile.py) -/
theorem pin_fileWriterPut : fileWriterPut = [
    "if", "return", "if", "call:os.path.exists", "call:os.makedirs", "except:OSError", "raise:error.PySmiWriterError",
    "call:error.PySmiWriterError", "call:sys.exc_info", "if", "call:tempfile.mkstemp", "loop", "call:os.close",
    "call:os.rename", "except:(OSError, IOError, UnicodeEncodeError)", "call:sys.exc_info", "if", "call:os.unlink",
    "except:OSError", "raise:error.PySmiWriterError", "call:error.PySmiWriterError"] := by decide

/-- FileWriter.getData (pysmi/writer/localfile.py) -/
theorem pin_fileWriterGet : fileWriterGet = [
    "call:open", "call:f.read", "call:f.close", "return:value", "except:(OSError, IOError, UnicodeError)",
    "call:sys.exc_info", "if", "call:f.close", "if", "return:value", "raise:error.PySmiWriterError",
    "call:error.PySmiWriterError"] := by decide

/-- PyFileWriter.putData (pysmi/writer/pyfile.py) -/
theorem pin_pyFileWriterPut : pyFileWriterPut = [
    "if", "return", "if", "call:os.path.exists", "call:os.makedirs", "except:OSError", "raise:error.PySmiWriterError",
    "call:error.PySmiWriterError", "call:sys.exc_info", "if", "call:tempfile.mkstemp", "loop", "call:os.close",
    "call:os.rename", "except:(OSError, IOError, UnicodeEncodeError)", "call:sys.exc_info", "if", "call:os.access",
    "call:os.unlink", "raise:error.PySmiWriterError", "call:error.PySmiWriterError", "if", "if",
    "call:py_compile.compile", "call:py_compile.compile", "except:(SyntaxError, py_compile.PyCompileError)",
    "except:Exception", "if", "call:os.access", "call:os.unlink", "raise:error.PySmiWriterError",
    "call:error.PySmiWriterError", "call:sys.exc_info"] := by decide

end Pysmi.Pins.SkelC13
