import Pysmi.Generated.Skeletons
/-!
# Pins (C14): the control skeletons the hand-written models and oracles were written against

`Generated/Skeletons.lean` is rewritten from the source on every run (calls other than logging, string plumbing and pure
builtins, raises with their exception class, returns, loops, branches, handlers - in source order; for the scripts also the
exit status of every `sys.exit`).  A structural change of one of these methods breaks its pin - which is not by itself a
violation: the check then searches model and code for a failing input and reports what it finds.
(Literals written by harness/tools/repin.py when the models were last brought in line with the source.)
-/
namespace Pysmi.Pins.SkelC14
open Pysmi.Generated.Skeletons

/-- FileReader.getData (pysmi/reader/localfile.py) -/
theorem pin_fileReaderGet : fileReaderGet = [
    "loop", "call:self.getSubdirs", "loop", "call:self.getMibVariants", "if", "call:os.path.exists",
    "call:os.path.isfile", "call:os.stat", "call:time.strftime", "call:time.gmtime", "call:open", "call:fp.read",
    "call:fp.close", "if", "raise:IOError", "call:IOError", "return:value", "call:MibInfo",
    "except:(OSError, IOError)", "call:sys.exc_info", "if", "raise:error.PySmiError", "call:error.PySmiError",
    "call:sys.exc_info", "raise:error.PySmiReaderFileNotModifiedError", "call:error.PySmiReaderFileNotModifiedError",
    "raise:error.PySmiReaderFileNotFoundError", "call:error.PySmiReaderFileNotFoundError"] := by decide

/-- AbstractReader.getMibVariants (pysmi/reader/base.py) -/
theorem pin_fileReaderVariants : fileReaderVariants = [
    "if", "call:filenames.append", "if", "call:filenames.append", "call:mibname.upper", "if", "call:filenames.append",
    "call:mibname.lower", "if", "call:mibname.lower", "call:mibname.lower().find", "if", "call:filenames.extend",
    "call:filenames.append", "call:suffixed.upper", "call:filenames.append", "call:suffixed.lower", "return:value",
    "call:options.get"] := by decide

/-- ZipReader.getData (pysmi/reader/zipreader.py) -/
theorem pin_zipReaderGet : zipReaderGet = [
    "if", "raise:self._pendingError", "if", "raise:error.PySmiReaderFileNotFoundError",
    "call:error.PySmiReaderFileNotFoundError", "loop", "call:self.getMibVariants", "except:KeyError",
    "call:self._readZipFile", "if", "call:time.strftime", "call:time.gmtime", "if", "raise:IOError", "call:IOError",
    "return:value", "call:MibInfo", "raise:error.PySmiReaderFileNotFoundError",
    "call:error.PySmiReaderFileNotFoundError"] := by decide

end Pysmi.Pins.SkelC14
