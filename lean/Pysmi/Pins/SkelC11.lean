import Pysmi.Generated.Skeletons
/-!
# Pins (C11): the control skeletons the hand-written models and oracles were written against

`Generated/Skeletons.lean` is rewritten from the source on every run (calls other than logging, string plumbing and pure
builtins, raises with their exception class, returns, loops, branches, handlers - in source order; for the scripts also the
exit status of every `sys.exit`).  A structural change of one of these methods breaks its pin - which is not by itself a
violation: the check then searches model and code for a failing input and reports what it finds.
(Literals written by harness/tools/repin.py when the models were last brought in line with the source.)
-/
namespace Pysmi.Pins.SkelC11
open Pysmi.Generated.Skeletons

/-- SmiV2Lexer.t_NUMBER (pysmi/lexer/smi.py) -/
theorem pin_lexerNumber : lexerNumber = [
    "if", "call:t.value.lstrip", "raise:error.PySmiLexerError", "call:error.PySmiLexerError", "if", "call:abs", "if",
    "if", "if", "if", "raise:error.PySmiLexerError", "call:error.PySmiLexerError", "return:value"] := by decide

end Pysmi.Pins.SkelC11
