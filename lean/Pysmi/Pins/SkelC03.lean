import Pysmi.Generated.Skeletons
/-!
# Pins (C03): the control skeletons the hand-written models and oracles were written against

`Generated/Skeletons.lean` is rewritten from the source on every run (calls other than logging, string plumbing and pure
builtins, raises with their exception class, returns, loops, branches, handlers - in source order; for the scripts also the
exit status of every `sys.exit`).  A structural change of one of these methods breaks its pin - which is not by itself a
violation: the check then searches model and code for a failing input and reports what it finds.
(Literals written by harness/tools/repin.py when the models were last brought in line with the source.)
-/
namespace Pysmi.Pins.SkelC03
open Pysmi.Generated.Skeletons

/-- IntermediateCodeGen.genCode (pysmi/codegen/intermediate.py) -/
theorem pin_intermediateGenCode : intermediateGenCode = [
    "call:kwargs.get", "call:kwargs.get", "call:re.sub", "call:self._rows.clear", "call:self._cols.clear",
    "call:self._seenSyms.clear", "call:self._importMap.clear", "call:self._out.clear", "call:self.genImports", "loop",
    "if", "call:self.handlersTable[declr[0]]", "call:self.prepData", "loop", "if", "raise:error.PySmiCodegenError",
    "call:error.PySmiCodegenError", "if", "return:value", "call:MibInfo"] := by decide

/-- IntermediateCodeGen.genRevisions (pysmi/codegen/intermediate.py) -/
theorem pin_genRevisions : genRevisions = [
    "loop", "call:self.genTime", "call:self.textFilter", "call:revisions.append", "return:value"] := by decide

end Pysmi.Pins.SkelC03
