import Pysmi.Generated.Skeletons
/-!
# Pins (C01): the control skeletons the hand-written models and oracles were written against

`Generated/Skeletons.lean` is rewritten from the source on every run (calls other than logging, string plumbing and pure
builtins, raises with their exception class, returns, loops, branches, handlers - in source order; for the scripts also the
exit status of every `sys.exit`).  A structural change of one of these methods breaks its pin - which is not by itself a
violation: the check then searches model and code for a failing input and reports what it finds.
(Literals written by harness/tools/repin.py when the models were last brought in line with the source.)
-/
namespace Pysmi.Pins.SkelC01
open Pysmi.Generated.Skeletons

/-- SymtableCodeGen.genCode (pysmi/codegen/symtable.py) -/
theorem pin_symtableGenCode : symtableGenCode = [
    "call:kwargs.get", "call:self._rows.clear", "call:self._cols.clear", "call:self._parentOids.clear",
    "call:self._postponedSyms.clear", "call:self._importMap.clear", "call:self.genImports", "loop", "if",
    "call:self.handlersTable[declr[0]]", "call:self.prepData", "if", "raise:error.PySmiSemanticError",
    "call:error.PySmiSemanticError", "loop", "if", "raise:error.PySmiSemanticError", "call:error.PySmiSemanticError",
    "return:value", "call:MibInfo"] := by decide

/-- SymtableCodeGen.regPostponedSyms (pysmi/codegen/symtable.py) -/
theorem pin_regPostponed : regPostponed = [
    "loop", "loop", "call:self._postponedSyms.items", "if", "call:self.allParentsExists",
    "call:self._symsOrder.append", "call:regedSyms.append", "loop", "call:self._postponedSyms.pop"] := by decide

/-- IntermediateCodeGen.genNumericOid (pysmi/codegen/intermediate.py) -/
theorem pin_genNumericOid : genNumericOid = [
    "loop", "if", "if", "if", "raise:error.PySmiSemanticError", "call:error.PySmiSemanticError", "if",
    "raise:error.PySmiSemanticError", "call:error.PySmiSemanticError", "if", "raise:error.PySmiSemanticError",
    "call:error.PySmiSemanticError", "if", "raise:error.PySmiSemanticError", "call:error.PySmiSemanticError",
    "call:self.genNumericOid", "return:value"] := by decide

end Pysmi.Pins.SkelC01
