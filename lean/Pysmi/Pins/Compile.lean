import Pysmi.Model.Compile
import Pysmi.Generated.Compile
/-!
# Pins: the skeleton of `MibCompiler.compile()` the model was written against

`Generated/Compile.lean` is rewritten from `pysmi/compiler.py` on every run: the six status constants, and - in source
order - every assignment of a status to `processed[...]`, every call of a component (`getData`, `parse`, `genCode`,
`fileExists`, `putData`), every `del` on the working dictionaries and every `return` of `compile()`.  The hand-written
model (`Model/Compile.lean`) has one phase per loop of that skeleton; a change of the source that adds, drops or moves
one of these breaks the pin, and the check then searches the model and the code for a failing input.
-/
namespace Pysmi.Pins.Compile
open Pysmi.Generated.Compile

/-- the documented statuses are exactly the constructors of the model's `Status` -/
theorem pin_statuses :
    statusConsts.map (·.2) = ["compiled", "untouched", "failed", "unprocessed", "missing", "borrowed"] := by decide

theorem pin_skeleton : skeleton = [
    -- phase 1: discovery (`trySources`, `symTrees`, `registerTree`/`clearStale`, `failSource`, the missing branch)
    "call:source.getData", "call:self._parser.parse", "call:self._symbolgen.genCode", "del:failedMibs",
    "status:statusFailed", "status:statusMissing",
    -- phase 2: `needStep`
    "call:searcher.fileExists", "del:parsedMibs", "status:statusUntouched", "del:parsedMibs", "status:statusUntouched",
    -- phase 3: `genStep`
    "call:self._codegen.genCode", "del:parsedMibs", "status:statusFailed", "del:parsedMibs",
    -- phase 4: `borrowStep`
    "call:borrower.getData", "del:failedMibs",
    -- phase 5: `needBorrowStep`
    "call:searcher.fileExists", "del:borrowedMibs", "status:statusUntouched", "status:statusUntouched",
    "status:statusBorrowed", "del:borrowedMibs",
    -- the gate: `markUnprocessed`
    "status:statusUnprocessed", "return",
    -- phase 6: `storeStep`
    "call:self._writer.putData", "del:builtMibs", "status:statusCompiled", "status:statusFailed", "del:builtMibs",
    "return"] := by decide

end Pysmi.Pins.Compile
