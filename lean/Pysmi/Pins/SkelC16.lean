import Pysmi.Generated.Skeletons
/-!
# Pins (C16): the control skeletons the hand-written models and oracles were written against

`Generated/Skeletons.lean` is rewritten from the source on every run (calls other than logging, string plumbing and pure
builtins, raises with their exception class, returns, loops, branches, handlers - in source order; for the scripts also the
exit status of every `sys.exit`).  A structural change of one of these methods breaks its pin - which is not by itself a
violation: the check then searches model and code for a failing input and reports what it finds.
(Literals written by harness/tools/repin.py when the models were last brought in line with the source.)
-/
namespace Pysmi.Pins.SkelC16
open Pysmi.Generated.Skeletons

/-- IntermediateCodeGen.genImports (pysmi/codegen/intermediate.py) -/
theorem pin_intermediateGenImports : intermediateGenImports = [
    "loop", "if", "loop", "if", "call:toDel.append", "loop", "if", "call:imports[newModule].append", "loop",
    "call:imports[d[0]].remove", "loop", "if", "loop", "loop", "call:symbols.append", "if",
    "call:self._seenSyms.update", "call:self.transOpers", "call:self._importMap.update", "call:self.transOpers", "if",
    "call:outDict[module].extend", "return:value"] := by decide

/-- SymtableCodeGen.genImports (pysmi/codegen/symtable.py) -/
theorem pin_symtableGenImports : symtableGenImports = [
    "loop", "if", "loop", "if", "call:toDel.append", "loop", "if", "call:imports[newModule].append", "loop",
    "call:imports[d[0]].remove", "loop", "if", "loop", "loop", "call:self.symTrans", "if",
    "call:self._importMap.update", "call:self.transOpers", "return:value"] := by decide

/-- IntermediateCodeGen.genTrapType (pysmi/codegen/intermediate.py) -/
theorem pin_genTrapType : genTrapType = [
    "call:self.genLabel", "call:self.transOpers", "if", "call:self._importMap.get", "call:self.transOpers", "if",
    "if", "call:self.regSym", "return:value"] := by decide

end Pysmi.Pins.SkelC16
