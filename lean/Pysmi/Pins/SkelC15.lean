import Pysmi.Generated.Skeletons
/-!
# Pins (C15): the control skeletons the hand-written models and oracles were written against

`Generated/Skeletons.lean` is rewritten from the source on every run (calls other than logging, string plumbing and pure
builtins, raises with their exception class, returns, loops, branches, handlers - in source order; for the scripts also the
exit status of every `sys.exit`).  A structural change of one of these methods breaks its pin - which is not by itself a
violation: the check then searches model and code for a failing input and reports what it finds.
(Literals written by harness/tools/repin.py when the models were last brought in line with the source.)
-/
namespace Pysmi.Pins.SkelC15
open Pysmi.Generated.Skeletons

/-- .pyblock (pysmi/codegen/jfilters.py) -/
theorem pin_pyblock : pyblock = [
    "return:value", "call:text.replace", "call:text.replace('\\\\', '\\\\\\\\').replace",
    "call:text.replace('\\\\', '\\\\\\\\').replace('\"', '\\\\\"').replace"] := by decide

/-- .pyline (pysmi/codegen/jfilters.py) -/
theorem pin_pyline : pyline = [
    "return:value", "call:pyblock", "call:pyblock(text).replace",
    "call:pyblock(text).replace('\\n', '\\\\n').replace"] := by decide

end Pysmi.Pins.SkelC15
