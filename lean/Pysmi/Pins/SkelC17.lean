import Pysmi.Generated.Skeletons
/-!
# Pins (C17): the control skeletons the hand-written models and oracles were written against

`Generated/Skeletons.lean` is rewritten from the source on every run (calls other than logging, string plumbing and pure
builtins, raises with their exception class, returns, loops, branches, handlers - in source order; for the scripts also the
exit status of every `sys.exit`).  A structural change of one of these methods breaks its pin - which is not by itself a
violation: the check then searches model and code for a failing input and reports what it finds.
(Literals written by harness/tools/repin.py when the models were last brought in line with the source.)
-/
namespace Pysmi.Pins.SkelC17
open Pysmi.Generated.Skeletons

/-- .parserFactory (pysmi/parser/smi.py) -/
theorem pin_parserFactory : parserFactory = [
    "loop", "if", "if", "raise:error.PySmiError", "call:error.PySmiError", "loop", "if", "call:lexerFactory",
    "return:value"] := by decide

/-- .lexerFactory (pysmi/lexer/smi.py) -/
theorem pin_lexerFactory : lexerFactory = [
    "loop", "if", "if", "raise:error.PySmiError", "call:error.PySmiError", "loop", "if", "call:func", "call:func",
    "return:value"] := by decide

end Pysmi.Pins.SkelC17
