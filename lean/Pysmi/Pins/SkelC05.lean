import Pysmi.Generated.Skeletons
/-!
# Pins (C05): the control skeletons the hand-written models and oracles were written against

`Generated/Skeletons.lean` is rewritten from the source on every run (calls other than logging, string plumbing and pure
builtins, raises with their exception class, returns, loops, branches, handlers - in source order; for the scripts also the
exit status of every `sys.exit`).  A structural change of one of these methods breaks its pin - which is not by itself a
violation: the check then searches model and code for a failing input and reports what it finds.
(Literals written by harness/tools/repin.py when the models were last brought in line with the source.)
-/
namespace Pysmi.Pins.SkelC05
open Pysmi.Generated.Skeletons

/-- IntermediateCodeGen.genDefVal (pysmi/codegen/intermediate.py) -/
theorem pin_genDefVal : genDefVal = [
    "if", "return:value", "if", "return:value", "call:self.getBaseType", "if", "call:outDict.update", "if",
    "call:self.isHex", "if", "call:outDict.update", "call:outDict.update", "if", "call:self.isBinary", "if",
    "call:outDict.update", "call:outDict.update", "if", "if", "return:value", "call:outDict.update",
    "call:self.transOpers", "if", "call:self._importMap.get", "call:self.genNumericOid", "call:outDict.update",
    "except:Exception", "raise:error.PySmiSemanticError", "call:error.PySmiSemanticError", "if", "if", "if",
    "call:outDict.update", "if", "call:outDict.update", "if", "loop", "call:bits.get", "if", "call:defvalBits.append",
    "raise:error.PySmiSemanticError", "call:error.PySmiSemanticError", "call:outDict.update", "call:self.genBits",
    "return:value", "raise:error.PySmiSemanticError", "call:error.PySmiSemanticError", "return:value"] := by decide

/-- IntermediateCodeGen.getBaseType (pysmi/codegen/intermediate.py) -/
theorem pin_getBaseType : getBaseType = [
    "if", "raise:error.PySmiSemanticError", "call:error.PySmiSemanticError", "if", "raise:error.PySmiSemanticError",
    "call:error.PySmiSemanticError", "if", "raise:error.PySmiSemanticError", "call:error.PySmiSemanticError",
    "call:self.symbolTable[module][symName].get", "if", "raise:error.PySmiSemanticError",
    "call:error.PySmiSemanticError", "if", "return:value", "call:self.getBaseType", "if", "if", "return:value"] := by decide

end Pysmi.Pins.SkelC05
