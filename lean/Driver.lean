import Lean.Data.Json
import Pysmi.Model.Index
/-!
Line-protocol driver: one JSON object per input line, one JSON value per output line.
Imports only the import-free model files and `Lean.Data.Json`.
Python dicts travel as arrays of `[key, value]` pairs (order matters).
-/
open Lean (Json)
namespace Pysmi.Driver

def str (s : String) : List Char := s.toList
def unstr (s : List Char) : String := String.ofList s

def getStr (j : Json) : Except String (List Char) := do
  let s ← j.getStr?
  return str s

def getOptStr (j : Json) : Except String (Option (List Char)) :=
  match j with
  | .null => pure none
  | .str s => pure (if s.isEmpty then none else some (str s))
  | _ => throw "expected string or null"

def getList {α} (f : Json → Except String α) (j : Json) : Except String (List α) := do
  let a ← j.getArr?
  a.toList.mapM f

def getPairs {α} (f : Json → Except String α) (j : Json) : Except String (List (List Char × α)) :=
  getList (fun p => do
    let a ← p.getArr?
    match a.toList with
    | [k, v] => return (← getStr k, ← f v)
    | _ => throw "expected pair") j

def jStr (s : List Char) : Json := .str (unstr s)
def jPairs {α} (f : α → Json) (d : List (List Char × α)) : Json :=
  .arr (d.map (fun kv => .arr #[jStr kv.1, f kv.2])).toArray
def jStrs (l : List (List Char)) : Json := .arr (l.map jStr).toArray

/-! ### op: index -/
open Pysmi.Index in
def opIndex (j : Json) : Except String Json := do
  let old ← j.getObjVal? "old"
  let sec (n : String) := do getPairs (getList getStr) (← old.getObjVal? n)
  let ix : Idx Str Str :=
    { identity := ← sec "identity", enterprise := ← sec "enterprise",
      compliance := ← sec "compliance", oids := ← sec "oids" }
  let mods ← getList (fun m => do
    let name ← getStr (← m.getObjVal? "name")
    let s : Summary Str :=
      { identity := ← getOptStr (← m.getObjVal? "identity")
        enterprise := ← getOptStr (← m.getObjVal? "enterprise")
        compliance := ← getList getStr (← m.getObjVal? "compliance")
        oids := ← getList getStr (← m.getObjVal? "oids") }
    return (name, s)) (← j.getObjVal? "mods")
  let r := buildStr ix mods
  return Json.mkObj [("identity", jPairs jStrs r.identity), ("enterprise", jPairs jStrs r.enterprise),
    ("compliance", jPairs jStrs r.compliance), ("oids", jPairs jStrs r.oids)]

def handle (j : Json) : Except String Json := do
  let op ← (← j.getObjVal? "op").getStr?
  match op with
  | "index" => opIndex j
  | _ => throw s!"unknown op {op}"

partial def loop (hin hout : IO.FS.Stream) : IO Unit := do
  let line ← hin.getLine
  if line.isEmpty then return ()
  let out := match Json.parse line with
    | .error e => Json.mkObj [("driver_error", .str s!"json: {e}")]
    | .ok j => match handle j with
      | .error e => Json.mkObj [("driver_error", .str e)]
      | .ok r => r
  hout.putStrLn out.compress
  loop hin hout

end Pysmi.Driver

def main : IO Unit := do
  let hin ← IO.getStdin
  let hout ← IO.getStdout
  Pysmi.Driver.loop hin hout
  hout.flush
