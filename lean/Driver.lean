import Lean.Data.Json
import Pysmi.Model.Index
import Pysmi.Model.Compile
/-!
Line-protocol driver: one JSON object per input line, one JSON value per output line.
Imports only the import-free model files and `Lean.Data.Json`.
Python dicts travel as arrays of `[key, value]` pairs (order matters).
-/
open Lean (Json)
namespace Pysmi.Driver

def str (s : String) : List Char := s.toList
def unstr (s : List Char) : String := String.ofList s

def getStr (j : Json) : Except String (List Char) := do
  let s ← j.getStr?
  return str s

def getOptStr (j : Json) : Except String (Option (List Char)) :=
  match j with
  | .null => pure none
  | .str s => pure (if s.isEmpty then none else some (str s))
  | _ => throw "expected string or null"

def getList {α} (f : Json → Except String α) (j : Json) : Except String (List α) := do
  let a ← j.getArr?
  a.toList.mapM f

def getPairs {α} (f : Json → Except String α) (j : Json) : Except String (List (List Char × α)) :=
  getList (fun p => do
    let a ← p.getArr?
    match a.toList with
    | [k, v] => return (← getStr k, ← f v)
    | _ => throw "expected pair") j

def jStr (s : List Char) : Json := .str (unstr s)
def jPairs {α} (f : α → Json) (d : List (List Char × α)) : Json :=
  .arr (d.map (fun kv => .arr #[jStr kv.1, f kv.2])).toArray
def jStrs (l : List (List Char)) : Json := .arr (l.map jStr).toArray

/-! ### op: index -/
open Pysmi.Index in
def opIndex (j : Json) : Except String Json := do
  let old ← j.getObjVal? "old"
  let sec (n : String) := do getPairs (getList getStr) (← old.getObjVal? n)
  let ix : Idx Str Str :=
    { identity := ← sec "identity", enterprise := ← sec "enterprise",
      compliance := ← sec "compliance", oids := ← sec "oids" }
  let mods ← getList (fun m => do
    let name ← getStr (← m.getObjVal? "name")
    let s : Summary Str :=
      { identity := ← getOptStr (← m.getObjVal? "identity")
        enterprise := ← getOptStr (← m.getObjVal? "enterprise")
        compliance := ← getList getStr (← m.getObjVal? "compliance")
        oids := ← getList getStr (← m.getObjVal? "oids") }
    return (name, s)) (← j.getObjVal? "mods")
  let r := buildStr ix mods
  return Json.mkObj [("identity", jPairs jStrs r.identity), ("enterprise", jPairs jStrs r.enterprise),
    ("compliance", jPairs jStrs r.compliance), ("oids", jPairs jStrs r.oids)]

/-! ### op: compile -/
namespace C
open Pysmi.Compile

def getNat (j : Json) : Except String Nat := j.getNat?
def getInt (j : Json) : Except String Int := j.getInt?
def getBool (j : Json) : Except String Bool := j.getBool?

/-- table `[[key, ans], …]` → function with default -/
def table {α} (f : Json → Except String α) (dflt : α) (j : Json) : Except String (Nat → α) := do
  let rows ← getList (fun p => do
    match (← p.getArr?).toList with
    | [k, v] => return (← getNat k, ← f v)
    | _ => throw "expected [key, value]") j
  return fun k => match rows.find? (·.1 == k) with
    | some r => r.2
    | none => dflt

def srcAns (j : Json) : Except String SrcAns :=
  match j with
  | .str "nf" => pure .notFound
  | .str "err" => pure .error
  | .arr #[.str "ok", a, m, t] => do return .ok (← getNat a) (← getInt m) (← getNat t)
  | _ => throw "bad SrcAns"
def parseAns (j : Json) : Except String ParseAns :=
  match j with
  | .str "err" => pure .error
  | .arr #[.str "trees", ts] => do return .trees (← getList getNat ts)
  | _ => throw "bad ParseAns"
def symAns (j : Json) : Except String SymAns :=
  match j with
  | .str "err" => pure .error
  | .arr #[.str "ok", n, imps] => do return .ok (← getNat n) (← getList getNat imps)
  | _ => throw "bad SymAns"
def genAns (j : Json) : Except String GenAns :=
  match j with
  | .str "err" => pure .error
  | .arr #[.str "ok", d] => do return .ok (← getNat d)
  | _ => throw "bad GenAns"
def searchAns (j : Json) : Except String SearchAns :=
  match j with
  | .str "nf" => pure .notFound
  | .str "nm" => pure .notModified
  | .str "err" => pure .error
  | .str "ret" => pure .returns
  | _ => throw "bad SearchAns"
def borrowAns (j : Json) : Except String BorrowAns :=
  match j with
  | .str "err" => pure .error
  | .arr #[.str "ok", a, m, d] => do return .ok (← getNat a) (← getInt m) (← getNat d)
  | _ => throw "bad BorrowAns"

def jCall : Call → Json
  | .get i n => .arr #[.str "get", i, n]
  | .parse t => .arr #[.str "parse", t]
  | .sym t => .arr #[.str "sym", t]
  | .gen t g => .arr #[.str "gen", t, g]
  | .search i n m r => .arr #[.str "search", i, n, .num (Lean.JsonNumber.fromInt m), r]
  | .borrow i n g => .arr #[.str "borrow", i, n, g]
  | .put n d dr => .arr #[.str "put", n, d, dr]

def jErr : Option Err → Json
  | none => .null
  | some (.call c) => jCall c
  | some (.noModule i n) => .arr #[.str "nomodule", i, n]

def jStatus : Status → String
  | .compiled => "compiled" | .untouched => "untouched" | .failed => "failed"
  | .unprocessed => "unprocessed" | .missing => "missing" | .borrowed => "borrowed"

def opCompile (j : Json) : Except String Json := do
  let req ← getList getNat (← j.getObjVal? "req")
  let oj ← j.getObjVal? "opts"
  let flag (n : String) (d : Bool) : Except String Bool :=
    match oj.getObjVal? n with
    | .ok v => getBool v
    | .error _ => pure d
  let o : Opts := { noDeps := ← flag "noDeps" false, rebuild := ← flag "rebuild" false,
                    dryRun := ← flag "dryRun" false, genTexts := ← flag "genTexts" false,
                    writeMibs := ← flag "writeMibs" true, ignoreErrors := ← flag "ignoreErrors" false }
  let fuel ← getNat (← j.getObjVal? "fuel")
  let sources ← getList (table srcAns .notFound) (← j.getObjVal? "sources")
  let parse ← table parseAns .error (← j.getObjVal? "parse")
  let sym ← table symAns .error (← j.getObjVal? "sym")
  let gen ← table genAns .error (← j.getObjVal? "gen")
  let searchers ← getList (table searchAns .notFound) (← j.getObjVal? "searchers")
  let borrowers ← getList (fun b => do
      let fl ← b.getObjVal? "flavour"
      let t ← table borrowAns .error (← b.getObjVal? "table")
      let f : Name → Bool → BorrowAns := fun n g =>
        match fl with
        | .bool fb => if fb == g then t n else .error
        | _ => t n
      return f) (← j.getObjVal? "borrowers")
  let put ← table getBool true (← j.getObjVal? "put")
  let c : Cfg := { sources := sources, parse := parse, sym := sym, gen := fun t _ => gen t,
                   searchers := searchers.map (fun t => fun n _ _ => t n),
                   borrowers := borrowers, put := fun n _ _ => put n }
  match run c req o fuel with
  | none => return Json.mkObj [("fuel_exhausted", true)]
  | some out =>
    return Json.mkObj [
      ("processed", .arr (out.processed.map (fun (n, e) =>
          Json.arr #[n, .str (jStatus e.st), jErr e.err,
                     match e.alias with | none => .null | some a => (a : Json)])).toArray),
      ("trace", .arr (out.trace.map jCall).toArray)]
end C

def handle (j : Json) : Except String Json := do
  let op ← (← j.getObjVal? "op").getStr?
  match op with
  | "index" => opIndex j
  | "compile" => C.opCompile j
  | _ => throw s!"unknown op {op}"

partial def loop (hin hout : IO.FS.Stream) : IO Unit := do
  let line ← hin.getLine
  if line.isEmpty then return ()
  let out := match Json.parse line with
    | .error e => Json.mkObj [("driver_error", .str s!"json: {e}")]
    | .ok j => match handle j with
      | .error e => Json.mkObj [("driver_error", .str e)]
      | .ok r => r
  hout.putStrLn out.compress
  loop hin hout

end Pysmi.Driver

def main : IO Unit := do
  let hin ← IO.getStdin
  let hout ← IO.getStdout
  Pysmi.Driver.loop hin hout
  hout.flush
