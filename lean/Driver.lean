import Lean.Data.Json
import Pysmi.Model.Index
import Pysmi.Model.Compile
import Pysmi.Model.Writer
import Pysmi.Model.Borrower
import Pysmi.Model.Searcher
import Pysmi.Model.Reader
import Pysmi.Model.Oid
import Pysmi.Model.Symtab
import Pysmi.Model.Syntax
import Pysmi.Model.Struct
import Pysmi.Model.Lexer
import Pysmi.Model.LexCfg
import Pysmi.Generated.LexTables
import Pysmi.Model.LR
import Pysmi.Model.PyStr
import Pysmi.Model.Imports
import Pysmi.Model.Pysnmp
import Pysmi.Model.Cli
import Pysmi.Model.Time
import Pysmi.Generated.Cli
import Pysmi.Generated.Pysnmp
import Pysmi.Generated.Smiv1
import Pysmi.Model.Grammar
import Pysmi.Generated.Grammar
import Pysmi.Model.Names
import Pysmi.Model.Tree
/-!
Line-protocol driver: one JSON object per input line, one JSON value per output line.
Imports only the import-free model files and `Lean.Data.Json`.
Python dicts travel as arrays of `[key, value]` pairs (order matters).
-/
open Lean (Json)
namespace Pysmi.Driver

def str (s : String) : List Char := s.toList
def unstr (s : List Char) : String := String.ofList s

def getStr (j : Json) : Except String (List Char) := do
  let s ← j.getStr?
  return str s

def getOptStr (j : Json) : Except String (Option (List Char)) :=
  match j with
  | .null => pure none
  | .str s => pure (if s.isEmpty then none else some (str s))
  | _ => throw "expected string or null"

def getList {α} (f : Json → Except String α) (j : Json) : Except String (List α) := do
  let a ← j.getArr?
  a.toList.mapM f

def getPairs {α} (f : Json → Except String α) (j : Json) : Except String (List (List Char × α)) :=
  getList (fun p => do
    let a ← p.getArr?
    match a.toList with
    | [k, v] => return (← getStr k, ← f v)
    | _ => throw "expected pair") j

def jStr (s : List Char) : Json := .str (unstr s)
def jPairs {α} (f : α → Json) (d : List (List Char × α)) : Json :=
  .arr (d.map (fun kv => .arr #[jStr kv.1, f kv.2])).toArray
def jStrs (l : List (List Char)) : Json := .arr (l.map jStr).toArray

/-! ### op: index -/
open Pysmi.Index in
def opIndex (j : Json) : Except String Json := do
  let old ← j.getObjVal? "old"
  let sec (n : String) := do getPairs (getList getStr) (← old.getObjVal? n)
  let ix : Idx Str Str :=
    { identity := ← sec "identity", enterprise := ← sec "enterprise",
      compliance := ← sec "compliance", oids := ← sec "oids" }
  let mods ← getList (fun m => do
    let name ← getStr (← m.getObjVal? "name")
    let s : Summary Str :=
      { identity := ← getOptStr (← m.getObjVal? "identity")
        enterprise := ← getOptStr (← m.getObjVal? "enterprise")
        compliance := ← getList getStr (← m.getObjVal? "compliance")
        oids := ← getList getStr (← m.getObjVal? "oids") }
    return (name, s)) (← j.getObjVal? "mods")
  let r := buildStr ix mods
  return Json.mkObj [("identity", jPairs jStrs r.identity), ("enterprise", jPairs jStrs r.enterprise),
    ("compliance", jPairs jStrs r.compliance), ("oids", jPairs jStrs r.oids)]

/-! ### op: compile -/
namespace C
open Pysmi.Compile

def getNat (j : Json) : Except String Nat := j.getNat?
def getInt (j : Json) : Except String Int := j.getInt?
def getBool (j : Json) : Except String Bool := j.getBool?

/-- table `[[key, ans], …]` → function with default -/
def table {α} (f : Json → Except String α) (dflt : α) (j : Json) : Except String (Nat → α) := do
  let rows ← getList (fun p => do
    match (← p.getArr?).toList with
    | [k, v] => return (← getNat k, ← f v)
    | _ => throw "expected [key, value]") j
  return fun k => match rows.find? (·.1 == k) with
    | some r => r.2
    | none => dflt

def srcAns (j : Json) : Except String SrcAns :=
  match j with
  | .str "nf" => pure .notFound
  | .str "err" => pure .error
  | .arr #[.str "ok", a, m, t] => do return .ok (← getNat a) (← getInt m) (← getNat t)
  | _ => throw "bad SrcAns"
def parseAns (j : Json) : Except String ParseAns :=
  match j with
  | .str "err" => pure .error
  | .arr #[.str "trees", ts] => do return .trees (← getList getNat ts)
  | _ => throw "bad ParseAns"
def symAns (j : Json) : Except String SymAns :=
  match j with
  | .str "err" => pure .error
  | .arr #[.str "ok", n, imps] => do return .ok (← getNat n) (← getList getNat imps)
  | _ => throw "bad SymAns"
def genAns (j : Json) : Except String GenAns :=
  match j with
  | .str "err" => pure .error
  | .arr #[.str "ok", d] => do return .ok (← getNat d)
  | _ => throw "bad GenAns"
def searchAns (j : Json) : Except String SearchAns :=
  match j with
  | .str "nf" => pure .notFound
  | .str "nm" => pure .notModified
  | .str "err" => pure .error
  | .str "ret" => pure .returns
  | _ => throw "bad SearchAns"
def borrowAns (j : Json) : Except String BorrowAns :=
  match j with
  | .str "err" => pure .error
  | .arr #[.str "ok", a, m, d] => do return .ok (← getNat a) (← getInt m) (← getNat d)
  | _ => throw "bad BorrowAns"

def jCall : Call → Json
  | .get i n => .arr #[.str "get", i, n]
  | .parse t => .arr #[.str "parse", t]
  | .sym t => .arr #[.str "sym", t]
  | .gen t g => .arr #[.str "gen", t, g]
  | .search i n m r => .arr #[.str "search", i, n, .num (Lean.JsonNumber.fromInt m), r]
  | .borrow i n g => .arr #[.str "borrow", i, n, g]
  | .put n d dr => .arr #[.str "put", n, d, dr]

def jErr : Option Err → Json
  | none => .null
  | some (.call c) => jCall c
  | some (.noModule i n) => .arr #[.str "nomodule", i, n]

def jStatus : Status → String
  | .compiled => "compiled" | .untouched => "untouched" | .failed => "failed"
  | .unprocessed => "unprocessed" | .missing => "missing" | .borrowed => "borrowed"

def opCompile (j : Json) : Except String Json := do
  let req ← getList getNat (← j.getObjVal? "req")
  let oj ← j.getObjVal? "opts"
  let flag (n : String) (d : Bool) : Except String Bool :=
    match oj.getObjVal? n with
    | .ok v => getBool v
    | .error _ => pure d
  let o : Opts := { noDeps := ← flag "noDeps" false, rebuild := ← flag "rebuild" false,
                    dryRun := ← flag "dryRun" false, genTexts := ← flag "genTexts" false,
                    writeMibs := ← flag "writeMibs" true, ignoreErrors := ← flag "ignoreErrors" false }
  let fuel ← getNat (← j.getObjVal? "fuel")
  let sources ← getList (table srcAns .notFound) (← j.getObjVal? "sources")
  let parse ← table parseAns .error (← j.getObjVal? "parse")
  let sym ← table symAns .error (← j.getObjVal? "sym")
  let gen ← table genAns .error (← j.getObjVal? "gen")
  let searchers ← getList (table searchAns .notFound) (← j.getObjVal? "searchers")
  let borrowers ← getList (fun b => do
      let fl ← b.getObjVal? "flavour"
      let t ← table borrowAns .error (← b.getObjVal? "table")
      let f : Name → Bool → BorrowAns := fun n g =>
        match fl with
        | .bool fb => if fb == g then t n else .error
        | _ => t n
      return f) (← j.getObjVal? "borrowers")
  let put ← table getBool true (← j.getObjVal? "put")
  let c : Cfg := { sources := sources, parse := parse, sym := sym, gen := fun t _ => gen t,
                   searchers := searchers.map (fun t => fun n _ _ => t n),
                   borrowers := borrowers, put := fun n _ _ => put n }
  match run c req o fuel with
  | none => return Json.mkObj [("fuel_exhausted", true)]
  | some out =>
    return Json.mkObj [
      ("processed", .arr (out.processed.map (fun (n, e) =>
          Json.arr #[n, .str (jStatus e.st), jErr e.err,
                     match e.alias with | none => .null | some a => (a : Json)])).toArray),
      ("trace", .arr (out.trace.map jCall).toArray)]
end C

/-! ### op: put / put2 (file writers) -/
namespace Wr
open Pysmi.Writer

def fault (j : Json) : Except String Fault :=
  match j with
  | .str "none" => pure .none
  | .str "error" => pure .error
  | .str "soft" => pure .soft
  | .arr #[.str "short", n] => do return .short (← n.getNat?)
  | _ => throw "bad fault"

def kind (j : Json) : Except String Kind :=
  match j with
  | .str "file" => pure .file
  | .str "py" => pure .py
  | _ => throw "bad kind"

def content (j : Json) : Except String Content :=
  match j with
  | .str "absent" => pure .absent
  | .str "old" => pure .old
  | _ => throw "bad content"

def jContent : Content → Json
  | .absent => .str "absent"
  | .old => .str "old"
  | .data who w => .arr #[.str "data", who, w]

def jOptContent : Option Content → Json
  | none => .null
  | some c => jContent c

def jSys : Sys → String
  | .makedirs => "makedirs" | .mkstemp => "mkstemp" | .write => "write" | .close => "close"
  | .rename => "rename" | .unlink => "unlink" | .pycompile => "pycompile"

def jRes : Res → String
  | .ok => "ok" | .writerError => "writerError" | .osError => "osError"

def jPC : PC → Json
  | .done r => .str (jRes r)
  | .start => .str "pc:start" | .mkstemp => .str "pc:mkstemp" | .write => .str "pc:write"
  | .close => .str "pc:close" | .rename => .str "pc:rename" | .cleanup => .str "pc:cleanup"
  | .compile => .str "pc:compile" | .rmmodule => .str "pc:rmmodule"

def mkFS (j : Json) : Except String FS := do
  return { dirExists := ← (← j.getObjVal? "dirExists").getBool?,
           dest := ← content (← j.getObjVal? "dest"), tmp := fun _ => none }

def opPut (j : Json) : Except String Json := do
  let k ← kind (← j.getObjVal? "kind")
  let len ← (← j.getObjVal? "len").getNat?
  let pyc ← (← j.getObjVal? "pyCompile").getBool?
  let dry ← (← j.getObjVal? "dryRun").getBool?
  let fl ← getList fault (← j.getObjVal? "faults")
  let fs ← mkFS j
  let r := put k len pyc dry fl fs
  return Json.mkObj [("res", .str (jRes r.1)), ("dest", jContent r.2.dest), ("tmp", jOptContent (r.2.tmp 0)),
    ("dirExists", r.2.dirExists), ("calls", .arr (r.2.calls.map (fun c => Json.str (jSys c.2))).toArray)]

def opPut2 (j : Json) : Except String Json := do
  let k0 ← kind (← j.getObjVal? "k0")
  let k1 ← kind (← j.getObjVal? "k1")
  let l0 ← (← j.getObjVal? "l0").getNat?
  let l1 ← (← j.getObjVal? "l1").getNat?
  let fa ← getList fault (← j.getObjVal? "fa")
  let fb ← getList fault (← j.getObjVal? "fb")
  let sched ← getList (fun b => b.getBool?) (← j.getObjVal? "sched")
  let fs ← mkFS j
  let r := runTwo sched fa fb (mkW 0 k0 l0 false) (mkW 1 k1 l1 false) fs
  return Json.mkObj [("a", jPC r.1.pc), ("b", jPC r.2.1.pc), ("dest", jContent r.2.2.dest),
    ("tmp0", jOptContent (r.2.2.tmp 0)), ("tmp1", jOptContent (r.2.2.tmp 1)),
    ("calls", .arr (r.2.2.calls.map (fun c => Json.arr #[c.1, .str (jSys c.2)])).toArray)]
end Wr

/-! ### op: borrow (AbstractBorrower.getData decision) -/
open Pysmi.Borrower in
def opBorrow (j : Json) : Except String Json := do
  let flavour ← (← j.getObjVal? "flavour").getBool?
  let g : OptVal := match j.getObjVal? "genTexts" with
    | .ok (.bool b) => .bool b
    | .ok .null => .none
    | _ => .absent
  let ownExts ← getList (fun x => x.getStr?) (← j.getObjVal? "ownExts")
  let held ← getList (fun x => x.getStr?) (← j.getObjVal? "heldExts")   -- extensions under which the file exists
  let reader : List String → Option String := fun exts => exts.find? (fun e => held.contains e)
  match getData flavour ownExts reader g none with
  | .notFound => return .str "notFound"
  | .ok e => return Json.mkObj [("ok", .str e)]

/-! ### op: searcher -/
open Pysmi.Searcher in
def opSearcher (j : Json) : Except String Json := do
  let kind ← (← j.getObjVal? "kind").getStr?
  let mtime ← (← j.getObjVal? "mtime").getInt?
  let rebuild ← (← j.getObjVal? "rebuild").getBool?
  let ents ← getList (fun p => do
    match (← p.getArr?).toList with
    | [k, .str "absent"] => return (← k.getStr?, Ent.absent)
    | [k, .str "dir"] => return (← k.getStr?, Ent.dir)
    | [k, .arr #[.str "file", t, h]] =>
      let hdr ← match h with
        | .null => pure none
        | v => do pure (some (← v.getInt?))
      return (← k.getStr?, Ent.file (← t.getInt?) hdr)
    | _ => throw "bad entry") (← j.getObjVal? "entries")
  let look : String → Ent := fun s => match ents.find? (·.1 == s) with
    | some e => e.2
    | none => .absent
  let strs (n : String) := do getList (fun x => x.getStr?) (← j.getObjVal? n)
  let a ← match kind with
    | "any" => do pure (anyFile (← strs "exts") look mtime rebuild)
    | "py" => do pure (pyFile (← strs "bytecode") (← strs "source") look mtime rebuild)
    | "stub" => do pure (stub (← strs "names") (← (← j.getObjVal? "name").getStr?) mtime rebuild)
    | _ => throw "bad searcher kind"
  return .str (match a with | .notFound => "nf" | .notModified => "nm" | .returns => "ret")

/-! ### ops: filereader / zipreader / urlkind -/
namespace Rd
open Pysmi.Reader

def opts (j : Json) : Except String Opts := do
  let b (n : String) := do (← j.getObjVal? n).getBool?
  return { original := ← b "original", uppercase := ← b "uppercase", lowcase := ← b "lowcase", fuzzy := ← b "fuzzy",
           exts := ← getList getStr (← j.getObjVal? "exts") }

def fileEnt (c m : Json) : Except String FileEnt := do
  return { content := ← c.getNat?, mtime := ← m.getInt? }

def jResult : Option (Str × Str × FileEnt) → Json
  | none => .str "notfound"
  | some (a, f, e) => Json.mkObj [("alias", jStr a), ("file", jStr f), ("content", e.content),
      ("mtime", .num (Lean.JsonNumber.fromInt e.mtime))]

def opFileReader (j : Json) : Except String Json := do
  let o ← opts j
  let name ← getStr (← j.getObjVal? "name")
  let index ← getList (fun p => do
    match (← p.getArr?).toList with
    | [k, v] => return (← getStr k, ← getStr v)
    | _ => throw "bad index row") (← j.getObjVal? "index")
  let useIndex ← (← j.getObjVal? "useIndex").getBool?
  let dirs ← getList (fun d => do
    let files ← getList (fun f => do
      match (← f.getArr?).toList with
      | [n, c, m] => return (← getStr n, ← fileEnt c m)
      | _ => throw "bad file row") d
    let look : Str → Option FileEnt := fun n => (files.find? (·.1 == n)).map (·.2)
    return look) (← j.getObjVal? "dirs")
  let large ← getList (fun x => x.getNat?) (← j.getObjVal? "large")
  match fileVariants o index useIndex name with
  | none => return .str "indexerror"
  | some vs =>
    match fileGetData dirs vs (fun c => large.contains c) with
    | .notFound => return .str "notfound"
    | .tooLarge => return .str "toolarge"
    | .found a f e => return jResult (some (a, f, e))

partial def member (j : Json) : Except String Member := do
  match (← j.getArr?).toList with
  | [.str "file", p, c, m] => return .file (← getStr p) (← fileEnt c m)
  | [.str "dir", p] => return .dirEntry (← getStr p)
  | [.str "zip", p, inner] => do
    let ms ← (← inner.getArr?).toList.mapM member
    return .zip (← getStr p) ms
  | _ => throw "bad member"

def opZipReader (j : Json) : Except String Json := do
  let o ← opts j
  let name ← getStr (← j.getObjVal? "name")
  let ms ← getList member (← j.getObjVal? "members")
  let empties ← getList (fun x => x.getNat?) (← j.getObjVal? "empty")
  let tbl := buildMembers ms []
  match zipGetData o tbl (fun c => empties.contains c) name with
  | none => return .str "indexerror"
  | some r => return jResult r

def opUrlKind (j : Json) : Except String Json := do
  let kindName (k : Kind) : String :=
    match k with | .file => "file" | .zip => "zip" | .http => "http" | .ftp => "ftp" | .unsupported => "unsupported"
  match j.getObjVal? "netloc" with
  | .ok nl =>
    let (k, p) := urlTarget (← getStr (← j.getObjVal? "scheme")) (← getStr nl) (← getStr (← j.getObjVal? "path"))
    return Json.arr #[.str (kindName k), .str (String.ofList p)]
  | .error _ =>
    let k := urlKind (← getStr (← j.getObjVal? "scheme")) (← getStr (← j.getObjVal? "path"))
    return .str (kindName k)
end Rd

/-! ### ops: oid (genNumericOid over symbol tables), symreg (symbol registration) -/
namespace Sy

def part (j : Json) : Except String Pysmi.Oid.Part :=
  match j with
  | .arr #[n, m] => do return .ref (← n.getNat?) (← m.getNat?)
  | v => do return .num (← v.getNat?)

/-- {"op":"oid","iso":k,"fuel":f,"tables":[[module,name,[parts]],…],"queries":[[parts]…]} -/
def opOid (j : Json) : Except String Json := do
  let iso ← (← j.getObjVal? "iso").getNat?
  let fuel ← (← j.getObjVal? "fuel").getNat?
  let rows ← getList (fun r => do
    match (← r.getArr?).toList with
    | [m, n, ps] => return (← m.getNat?, ← n.getNat?, ← getList part ps)
    | _ => throw "bad table row") (← j.getObjVal? "tables")
  let T : Pysmi.Oid.Tables := fun m n => (rows.find? (fun r => r.1 == m && r.2.1 == n)).map (·.2.2)
  let qs ← getList (getList part) (← j.getObjVal? "queries")
  return .arr (qs.map (fun q =>
    match Pysmi.Oid.numericOid iso T fuel q with
    | .ok o => Json.arr (o.map (fun (x : Nat) => (x : Json))).toArray
    | .error (.noSymbol n m) => Json.arr #[.str "nosymbol", n, m]
    | .error .fuel => .str "fuel")).toArray

/-- {"op":"symreg","avail":[names],"decls":[[name,[parents],[rows]],…]} -/
def opSymreg (j : Json) : Except String Json := do
  let avail ← getList (fun x => x.getNat?) (← j.getObjVal? "avail")
  let decls ← getList (fun r => do
    match (← r.getArr?).toList with
    | [n, ps, rs] => return ({ name := ← n.getNat?, parents := ← getList (fun x => x.getNat?) ps,
                                addsRows := ← getList (fun x => x.getNat?) rs } : Pysmi.Symtab.Decl)
    | _ => throw "bad decl") (← j.getObjVal? "decls")
  match Pysmi.Symtab.run (fun n => avail.contains n) decls with
  | .ok order => return Json.mkObj [("order", .arr (order.map (fun (x : Nat) => (x : Json))).toArray)]
  | .error (.duplicate n) => return Json.mkObj [("duplicate", n)]
  | .error (.unknownParents ns) => return Json.mkObj [("unknown", .arr (ns.map (fun (x : Nat) => (x : Json))).toArray)]
end Sy

/-! ### ops: ranges / basetype / defval -/
namespace Sx
open Pysmi.Syntax

def lit (j : Json) : Except String Lit :=
  match j with
  | .arr #[.str "hex", .str s] => pure (.hex s.toList)
  | .arr #[.str "bin", .str s] => pure (.bin s.toList)
  | v => do return .dec (← v.getInt?)

def alt (j : Json) : Except String Alt := do
  match (← j.getArr?).toList with
  | [a] => return .single (← lit a)
  | [a, b] => return .range (← lit a) (← lit b)
  | _ => throw "bad alternative"

def jInt (i : Int) : Json := .num (Lean.JsonNumber.fromInt i)

def opRanges (j : Json) : Except String Json := do
  let alts ← getList alt (← j.getObjVal? "alts")
  match genRanges alts with
  | .ok l => return .arr (l.map (fun p => Json.arr #[jInt p.1, jInt p.2])).toArray
  | .error e => return .str (match e with | .emptyHex => "emptyhex" | .emptyBin => "emptybin" | _ => "error")

def subList (j : Json) : Except String (Option (List (Name × Int))) :=
  match j with
  | .null => pure none
  | v => do
    let l ← getList (fun p => do
      match (← p.getArr?).toList with
      | [n, k] => return (← n.getNat?, ← k.getInt?)
      | _ => throw "bad sub item") v
    return some l

/-- {"op":"basetype","base":[ids],"empty":id,"fuel":f,"types":[[module,name,base,bmodule,sub|null]…],"queries":[[name,module]…]} -/
def opBasetype (j : Json) : Except String Json := do
  let bases ← getList (fun x => x.getNat?) (← j.getObjVal? "base")
  let empty ← (← j.getObjVal? "empty").getNat?
  let fuel ← (← j.getObjVal? "fuel").getNat?
  let rows ← getList (fun r => do
    match (← r.getArr?).toList with
    | [m, n, b, bm, sub] => return (← m.getNat?, ← n.getNat?, ({ base := ← b.getNat?, module := ← bm.getNat?, sub := ← subList sub } : TypeInfo))
    | _ => throw "bad type row") (← j.getObjVal? "types")
  let T : Types := fun m n => (rows.find? (fun r => r.1 == m && r.2.1 == n)).map (·.2.2)
  let qs ← getList (fun q => do
    match (← q.getArr?).toList with
    | [n, m] => return (← n.getNat?, ← m.getNat?)
    | _ => throw "bad query") (← j.getObjVal? "queries")
  return .arr (qs.map (fun q =>
    match getBaseType (fun b => bases.contains b) empty T fuel q.1 q.2 with
    | .ok (b, sub) => Json.arr #[b, match sub with
        | none => .null
        | some l => .arr (l.map (fun p => Json.arr #[p.1, jInt p.2])).toArray]
    | .error .noSymbol => .str "nosymbol"
    | .error .unknownType => .str "unknowntype"
    | .error _ => .str "fuel")).toArray

def defval (j : Json) : Except String DefVal :=
  match j with
  | .arr #[.str "num", v] => do return .num (← v.getInt?)
  | .arr #[.str "hex", .str s] => pure (.hex s.toList)
  | .arr #[.str "bin", .str s] => pure (.bin s.toList)
  | .arr #[.str "str", .str s] => pure (.str s.toList)
  | .arr #[.str "label", n] => do return .label (← n.getNat?)
  | .arr #[.str "bits", ns] => do return .bits (← getList (fun x => x.getNat?) ns)
  | _ => throw "bad defval"

def jEmitted : Emitted → Json
  | .nothing => .str "nothing"
  | .basetypeOnly => .str "basetypeonly"
  | .decimal v => .arr #[.str "decimal", jInt v]
  | .hexOfInt v => .arr #[.str "hexofint", v]
  | .binOfInt v => .arr #[.str "binofint", v]
  | .hexDigits ds => .arr #[.str "hexdigits", .str (String.ofList ds)]
  | .hexOfBin none => .arr #[.str "hexofbin", .null]
  | .hexOfBin (some (w, v)) => .arr #[.str "hexofbin", w, v]
  | .string s => .arr #[.str "string", .str (String.ofList s)]
  | .enum n => .arr #[.str "enum", n]
  | .bitsVal bs => .arr #[.str "bits", .arr (bs.map (fun p => Json.arr #[p.1, jInt p.2])).toArray]
  | .oidOf n => .arr #[.str "oid", n]
  | .semanticError => .str "semanticerror"

def opDefval (j : Json) : Except String Json := do
  let b (n : String) := do (← j.getObjVal? n).getBool?
  let enumOf ← subList (← j.getObjVal? "enum")
  let known ← getList (fun x => x.getNat?) (← j.getObjVal? "known")
  let dv ← defval (← j.getObjVal? "defval")
  return jEmitted (genDefVal (← b "isInt") (← b "isOid") (← b "isBits") (← b "isOctets") enumOf (fun n => known.contains n) dv)
end Sx

/-! ### op: struct (references, indices, compliance groups, node types of one module) -/
namespace St
open Pysmi.Struct

def nats (j : Json) : Except String (List Nat) := getList (fun x => x.getNat?) j

def syn (j : Json) : Except String Syn :=
  match j with
  | .arr #[.str "seqof", r] => do return .seqOf (← r.getNat?)
  | .arr #[.str "named", t] => do return .named (← t.getNat?)
  | .str "bits" => pure .bits
  | _ => pure .other

def jRef (r : Ref) : Json := .arr #[r.module, r.object]

def opStruct (j : Json) : Except String Json := do
  let imports ← getList (fun r => do
    match (← r.getArr?).toList with
    | [m, syms] => return (← m.getNat?, ← nats syms)
    | _ => throw "bad import row") (← j.getObjVal? "imports")
  let self ← (← j.getObjVal? "self").getNat?
  let rows ← nats (← j.getObjVal? "rows")
  let cols ← nats (← j.getObjVal? "cols")
  let lists ← getList nats (← j.getObjVal? "lists")
  let indices ← getList (getList (fun p => do
    match (← p.getArr?).toList with
    | [i, n] => return (← i.getBool?, ← n.getNat?)
    | _ => throw "bad index item")) (← j.getObjVal? "indices")
  let compl ← getList (getList (fun p => do
    match (← p.getArr?).toList with
    | [.null, gs] => return (none, ← nats gs)
    | [m, gs] => return (some (← m.getNat?), ← nats gs)
    | _ => throw "bad compliance module")) (← j.getObjVal? "compliances")
  let nodes ← getList (fun p => do
    match (← p.getArr?).toList with
    | [n, s] => return (← n.getNat?, ← syn s)
    | _ => throw "bad node") (← j.getObjVal? "nodes")
  let nt : NodeType → String := fun t => match t with
    | .table => "table" | .row => "row" | .column => "column" | .scalar => "scalar"
  return Json.mkObj [
    ("lists", .arr (lists.map (fun l => Json.arr ((genObjects imports self l).map jRef).toArray)).toArray),
    ("indices", .arr (indices.map (fun l => Json.arr ((genTableIndex imports self l).map
        (fun r => Json.arr #[r.module, r.object, r.implied])).toArray)).toArray),
    ("compliances", .arr (compl.map (fun l => Json.arr ((genCompliances self l).map jRef).toArray)).toArray),
    ("nodes", .arr (nodes.map (fun p => Json.str (nt (nodeType rows cols p.1 p.2)))).toArray)]
end St

/-! ### op: lex -/
namespace Lx
open Pysmi.Lexer

def textOf (j : Json) : Except String (List Char) := do
  let cps ← getList (fun x => x.getNat?) j
  return cps.map Char.ofNat

def jTok (t : Tok) : Json :=
  .arr #[.str t.ty, (match t.val with
    | .str s => Json.arr (s.map (fun c => (c.toNat : Json))).toArray
    | .int v => .num (Lean.JsonNumber.fromInt v)), t.line]

def opLex (j : Json) : Except String Json := do
  let variant ← (← j.getObjVal? "variant").getStr?
  let text ← textOf (← j.getObjVal? "text")
  match lexAll (cfgOf variant) text with
  | .ok toks => return Json.mkObj [("tokens", .arr (toks.map jTok).toArray)]
  | .error (.err k line) => return Json.mkObj [("error", .str (match k with | .lexer => "lexer" | .plyLexError => "plylexerror")), ("line", line)]
  | .error .outOfFuel => return Json.mkObj [("error", .str "fuel")]
end Lx

/-! ### op: text (C15) -/
namespace Tx
open Pysmi.PyStr

def cps (s : List Char) : Json := Json.arr (s.map (fun c => (c.toNat : Json))).toArray

def jEval (r : Except EvalErr (List Char)) : Json :=
  match r with
  | .ok v => Json.mkObj [("ok", cps v)]
  | .error .syntaxError => Json.mkObj [("error", .str "syntax")]
  | .error .namedEscape => Json.mkObj [("error", .str "named-escape")]

def opText (j : Json) : Except String Json := do
  let fn ← (← j.getObjVal? "fn").getStr?
  let s ← Lx.textOf (← j.getObjVal? "s")
  match fn with
  | "normalize" => return cps (normalize s)
  | "dropWs" => return cps (dropWs s)
  | "pyblock" => return cps (pyblock s)
  | "pyline" => return cps (pyline s)
  | "blockValue" => return jEval (blockValue s)
  | "lineValue" => return jEval (lineValue s)
  | "gated" =>
    let on ← (← j.getObjVal? "on").getBool?
    let present ← (← j.getObjVal? "present").getBool?
    return (match gated on (if present then some s else none) with | some t => cps t | none => Json.null)
  | "genTime" => return cps (Pysmi.Time.genTime s)
  | _ => throw s!"unknown text fn {fn}"
end Tx

/-! ### op: imports (C16) -/
namespace Im
open Pysmi.Imports

def getImports (j : Json) : Except String Imports :=
  getList (fun e => do
    let a ← e.getArr?
    let m ← (a[0]?.getD Json.null).getStr?
    let syms ← getList (fun x => x.getStr?) (a[1]?.getD Json.null)
    return (m, syms)) j

def jImports (imp : Imports) : Json :=
  .arr (imp.map (fun e => Json.arr #[.str e.1, .arr (e.2.map Json.str).toArray])).toArray

def opImports (j : Json) : Except String Json := do
  let imp ← getImports (← j.getObjVal? "imports")
  let which ← (← j.getObjVal? "generator").getStr?
  let consts := if which == "symtable" then Pysmi.Generated.Smiv1.symtableConstImports else Pysmi.Generated.Smiv1.intermediateConstImports
  let r := genImports Pysmi.Generated.Smiv1.convertImportv2 consts imp
  return Json.mkObj [("emitted", jImports r.1), ("modules", .arr (r.2.map Json.str).toArray),
                     ("converted", jImports (convert Pysmi.Generated.Smiv1.convertImportv2 imp))]
end Im

/-! ### op: pysnmp (C04) -/
namespace Ps
open Pysmi.Pysnmp

def opPysnmp (j : Json) : Except String Json := do
  let recs ← getList (fun e => do
    let a ← e.getArr?
    let n ← (a[0]?.getD Json.null).getStr?
    let o := a[1]?.getD Json.null
    let oid ← (match o with
      | .null => pure none
      | _ => do let l ← getList (fun x => x.getNat?) o; pure (some l) : Except String (Option (List Nat)))
    return ({ name := n, oid := oid } : Rec)) (← j.getObjVal? "records")
  let syms ← getList (fun x => x.getStr?) (← j.getObjVal? "symbols")
  return Json.mkObj [("order", .arr ((sortByOid recs).map (fun r => Json.str r.name)).toArray),
                     ("expanded", .arr ((expandImports Pysmi.Generated.Pysnmp.smiObjects syms).map Json.str).toArray)]
end Ps

/-! ### op: cli (C20) -/
namespace Cl
open Pysmi.Cli

def statusOf (s : String) : Except String Pysmi.Compile.Status :=
  match s with
  | "compiled" => pure .compiled | "untouched" => pure .untouched | "failed" => pure .failed
  | "unprocessed" => pure .unprocessed | "missing" => pure .missing | "borrowed" => pure .borrowed
  | _ => throw s!"unknown status {s}"

def opCli (j : Json) : Except String Json := do
  let what ← (← j.getObjVal? "what").getStr?
  if what == "mibdump" then
    let p ← getList (fun e => do
      let a ← e.getArr?
      return ((← (a[0]?.getD Json.null).getStr?), ← statusOf (← (a[1]?.getD Json.null).getStr?))) (← j.getObjVal? "statuses")
    let ex : ExitCodes := ⟨Pysmi.Generated.Cli.EX_OK, Pysmi.Generated.Cli.EX_USAGE, Pysmi.Generated.Cli.EX_SOFTWARE,
      Pysmi.Generated.Cli.EX_MIB_MISSING, Pysmi.Generated.Cli.EX_MIB_FAILED⟩
    let cat (s : Pysmi.Compile.Status) : Json := .arr ((category p s).map Json.str).toArray
    return Json.mkObj [("exit", mibdumpExit ex p), ("compiled", cat .compiled), ("borrowed", cat .borrowed), ("untouched", cat .untouched),
      ("missing", cat .missing), ("unprocessed", cat .unprocessed), ("failed", cat .failed)]
  else if what == "flavours" then
    let os ← getList (fun e => do
      let t ← e.getStr?
      return (if t == "g" then Opt.genTexts else if t.startsWith "b:" then Opt.borrower (t.drop 2).toString else Opt.other)) (← j.getObjVal? "opts")
    return Json.mkObj [("borrowers", .arr ((borrowerFlavours os false).map (fun e => Json.arr #[.str e.1, .bool e.2])).toArray),
      ("request", .bool (requestFlavour os))]
  else if what == "modrev" then
    let revs ← getList (fun e => e.getNat?) (← j.getObjVal? "revs")
    return Json.mkObj [("rev", match moduleRevision revs with | some v => (v : Json) | none => .null)]
  else
    let rev (x : Json) : Except String Rev := match x with | .null => pure none | _ => do return some (← x.getNat?)
    let dst ← getList (fun e => do
      let a ← e.getArr?
      return ((← (a[0]?.getD Json.null).getStr?), (← rev (a[1]?.getD Json.null)), (← (a[2]?.getD Json.null).getNat?))) (← j.getObjVal? "dst")
    let srcs ← getList (fun e => do
      let a ← e.getArr?
      return ({ name := (← (a[0]?.getD Json.null).getStr?), rev := (← rev (a[1]?.getD Json.null)), file := (← (a[2]?.getD Json.null).getNat?) } : Src)) (← j.getObjVal? "srcs")
    let dry := (j.getObjValAs? Bool "dry").toOption.getD false
    let r := if dry then mibcopyDry true dst srcs else mibcopy true dst srcs
    let sorted := r.dst.mergeSort (fun a b => decide (a.1 ≤ b.1))
    return Json.mkObj [("dst", .arr (sorted.map (fun e => Json.arr #[.str e.1, (match e.2.1 with | some v => (v : Json) | none => .null), e.2.2])).toArray)]
end Cl

/-! ### ops: tables (load a parser export) / parse -/
namespace Pr
open Pysmi.Py Pysmi.LR

partial def expr (j : Json) : Except String Expr :=
  match j with
  | .null => pure .none
  | .bool b => pure (.bool b)
  | .num _ => do return .int (← j.getInt?)
  | .obj _ => do
    let get (k : String) := j.getObjVal? k
    if let .ok v := get "s" then return .str (← v.getStr?)
    if let .ok v := get "p" then return .p (← v.getNat?)
    if let .ok v := get "v" then return .var (← v.getStr?)
    if let .ok v := get "e" then return (← expr v)
    let two (v : Json) : Except String (Expr × Expr) := do
      match (← v.getArr?).toList with
      | [a, b] => return (← expr a, ← expr b)
      | _ => throw "expected two operands"
    if let .ok v := get "idx" then let (a, b) ← two v; return .index a b
    if let .ok v := get "add" then let (a, b) ← two v; return .add a b
    if let .ok v := get "and" then let (a, b) ← two v; return .and a b
    if let .ok v := get "or" then let (a, b) ← two v; return .or a b
    if let .ok v := get "eq" then let (a, b) ← two v; return .eq a b
    if let .ok v := get "ne" then let (a, b) ← two v; return .ne a b
    if let .ok v := get "not" then return .not (← expr v)
    if let .ok v := get "len" then return .len (← expr v)
    if let .ok v := get "istuple" then return .isTuple (← expr v)
    if let .ok v := get "isnone" then return .isNone (← expr v)
    if let .ok v := get "ite" then
      match (← v.getArr?).toList with
      | [c, a, b] => return .ite (← expr c) (← expr a) (← expr b)
      | _ => throw "expected three operands"
    if let .ok v := get "t" then return .tuple (← (← v.getArr?).toList.mapM expr)
    if let .ok v := get "l" then return .list (← (← v.getArr?).toList.mapM expr)
    if let .ok v := get "sl" then
      match (← v.getArr?).toList with
      | [e, lo, hi] =>
        let o (x : Json) : Except String (Option Expr) := match x with | .null => pure none | y => do return some (← expr y)
        return .slice (← expr e) (← o lo) (← o hi)
      | _ => throw "bad slice"
    throw s!"bad expr {j.compress}"
  | _ => throw s!"bad expr {j.compress}"

partial def stmt (j : Json) : Except String Stmt :=
  match j with
  | .str "pass" => pure .pass
  | .obj _ => do
    if let .ok v := j.getObjVal? "p0" then return .setP0 (← expr v)
    if let .ok v := j.getObjVal? "as" then
      match (← v.getArr?).toList with
      | [n, e] => return .assign (← n.getStr?) (← expr e)
      | _ => throw "bad assign"
    if let .ok v := j.getObjVal? "aug" then
      match (← v.getArr?).toList with
      | [n, e] => return .augAdd (← n.getStr?) (← expr e)
      | _ => throw "bad aug"
    if let .ok v := j.getObjVal? "if" then
      match (← v.getArr?).toList with
      | [c, t, f] => return .ite (← expr c) (← (← t.getArr?).toList.mapM stmt) (← (← f.getArr?).toList.mapM stmt)
      | _ => throw "bad if"
    throw "bad stmt"
  | _ => throw "bad stmt"

structure Loaded where
  tables : Tables
  actions : Actions

def symTable {α} (rows : List (Nat × List (String × α))) (n : Nat) : Array (List (String × α)) :=
  rows.foldl (fun a r => if r.1 < a.size then a.set! r.1 r.2 else a) (Array.replicate n [])

def load (j : Json) : Except String Loaded := do
  let prods ← getList (fun r => do
    match (← r.getArr?).toList with
    | [l, rhs, f] => return ({ lhs := ← l.getStr?, rhs := ← getList (fun x => x.getStr?) rhs, func := ← f.getStr? } : Rule)
    | _ => throw "bad production") (← j.getObjVal? "prods")
  let rows {α} (name : String) (f : Json → Except String α) : Except String (List (Nat × List (String × α))) := do
    getList (fun r => do
      match (← r.getArr?).toList with
      | [st, ents] =>
        let es ← getList (fun e => do
          match (← e.getArr?).toList with
          | [s, v] => return (← s.getStr?, ← f v)
          | _ => throw "bad table entry") ents
        return (← st.getNat?, es)
      | _ => throw "bad table row") (← j.getObjVal? name)
  let arows ← rows "action" (fun v => v.getInt?)
  let grows ← rows "goto" (fun v => v.getNat?)
  let n := (arows.map (·.1) ++ grows.map (·.1)).foldl max 0 + 1
  let atab := symTable arows n
  let gtab := symTable grows n
  let dflt ← getList (fun r => do
    match (← r.getArr?).toList with
    | [st, a] => return (← st.getNat?, ← a.getInt?)
    | _ => throw "bad defaulted row") (← j.getObjVal? "defaulted")
  let dtab : Array (Option Int) := dflt.foldl (fun a r => if r.1 < a.size then a.set! r.1 (some r.2) else a) (Array.replicate n none)
  let acts ← (← j.getObjVal? "actions").getObj?
  let bodies ← acts.toList.mapM (fun (k, v) => do
    match v with
    | .arr ss => do return (k, some (← ss.toList.mapM stmt))
    | _ => return (k, none))
  let native ← getList (fun x => x.getStr?) (← j.getObjVal? "native")
  let T : Tables := {
    prods := prods.toArray
    action := fun s sym => (atab[s]?.getD []).find? (·.1 == sym) |>.map (·.2)
    goto := fun s sym => (gtab[s]?.getD []).find? (·.1 == sym) |>.map (·.2)
    defaulted := fun s => (dtab[s]?.getD none)
    start := ← (← j.getObjVal? "start").getStr? }
  let A : Actions := {
    body := fun f => match bodies.find? (·.1 == f) with | some (_, b) => b | none => none
    native := fun f => native.contains f }
  return { tables := T, actions := A }

partial def jPy : PyVal → Json
  | .none => .null
  | .bool b => .bool b
  | .int i => .num (Lean.JsonNumber.fromInt i)
  | .str s => Json.mkObj [("s", .arr (s.map (fun c => (c.toNat : Json))).toArray)]
  | .tuple xs => Json.mkObj [("t", .arr (xs.map jPy).toArray)]
  | .list xs => Json.mkObj [("l", .arr (xs.map jPy).toArray)]
  | .dict kvs => Json.mkObj [("d", .arr (kvs.map (fun kv => Json.arr #[jPy kv.1, jPy kv.2])).toArray)]

def opParse (ld : Loaded) (j : Json) : Except String Json := do
  let variant ← (← j.getObjVal? "variant").getStr?
  let text ← Lx.textOf (← j.getObjVal? "text")
  match parse (Pysmi.Lexer.cfgOf variant) ld.tables ld.actions text with
  | .modules ast => return Json.mkObj [("ast", jPy ast)]
  | .lexerError l => return Json.mkObj [("error", .str "lexer"), ("line", l)]
  | .parserError l => return Json.mkObj [("error", .str "parser"), ("line", l)]
  | .other m => return Json.mkObj [("error", .str ("other: " ++ m))]
end Pr

namespace Tr
open Pysmi.Tree
partial def dir (j : Json) : Except String Dir := do
  let files ← (← (← j.getObjVal? "files").getArr?).toList.mapM (fun n => n.getStr?)
  let subs ← (← (← j.getObjVal? "subs").getArr?).toList.mapM dir
  return .mk files subs
/-- {"op":"subdirs","tree":{"files":[…],"subs":[tree…]}} → {"dirs":[[file…]…],"count":n} -/
def opSubdirs (j : Json) : Except String Json := do
  let t ← dir (← j.getObjVal? "tree")
  return Json.mkObj [("dirs", .arr ((t.flatten.map (fun fs => Json.arr ((fs.map Json.str).toArray))).toArray)), ("count", t.size)]
end Tr

namespace Nm
/-- {"op":"trans","names":[…]} → {"keys":[…]} -/
def opTrans (j : Json) : Except String Json := do
  let names ← (← (← j.getObjVal? "names").getArr?).toList.mapM (fun n => n.getStr?)
  return Json.mkObj [("keys", .arr ((names.map (fun n => Json.str (String.ofList (Pysmi.Names.trans n.toList)))).toArray))]
end Nm

namespace Gf
/-- {"op":"factory","which":"parser"|"lexer","kw":[[name,bool],…]} → {"error":name} | {"ok":[[member,option],…]} -/
def opFactory (j : Json) : Except String Json := do
  let which ← (← j.getObjVal? "which").getStr?
  let tbl := if which == "lexer" then Pysmi.Generated.Grammar.lexerOptionMembers else Pysmi.Generated.Grammar.optionFuncs
  let kw ← (← (← j.getObjVal? "kw").getArr?).toList.mapM (fun p => do
    match (← p.getArr?).toList with
    | [n, b] => pure ((← n.getStr?), (← b.getBool?))
    | _ => throw "kw entry")
  match Pysmi.Grammar.factory tbl kw with
  | .error e => return Json.mkObj [("error", .str e)]
  | .ok c =>
    let members := (tbl.flatMap (·.2)).eraseDups
    let got := members.filterMap (fun m => (c m).map (fun o => (m, o)))
    return Json.mkObj [("ok", Json.arr (got.map (fun (m, o) => Json.arr #[.str m, .str o])).toArray)]
end Gf

def handle (j : Json) : Except String Json := do
  let op ← (← j.getObjVal? "op").getStr?
  match op with
  | "index" => opIndex j
  | "compile" => C.opCompile j
  | "put" => Wr.opPut j
  | "borrow" => opBorrow j
  | "searcher" => opSearcher j
  | "filereader" => Rd.opFileReader j
  | "zipreader" => Rd.opZipReader j
  | "urlkind" => Rd.opUrlKind j
  | "oid" => Sy.opOid j
  | "symreg" => Sy.opSymreg j
  | "ranges" => Sx.opRanges j
  | "basetype" => Sx.opBasetype j
  | "defval" => Sx.opDefval j
  | "struct" => St.opStruct j
  | "lex" => Lx.opLex j
  | "text" => Tx.opText j
  | "imports" => Im.opImports j
  | "pysnmp" => Ps.opPysnmp j
  | "cli" => Cl.opCli j
  | "put2" => Wr.opPut2 j
  | "factory" => Gf.opFactory j
  | "trans" => Nm.opTrans j
  | "subdirs" => Tr.opSubdirs j
  | _ => throw s!"unknown op {op}"

partial def loop (hin hout : IO.FS.Stream) (loaded : List (String × Pr.Loaded)) : IO Unit := do
  let line ← hin.getLine
  if line.isEmpty then return ()
  let mut loaded := loaded
  let out ← match Json.parse line with
    | .error e => pure (Json.mkObj [("driver_error", .str s!"json: {e}")])
    | .ok j =>
      match (j.getObjVal? "op").bind (·.getStr?) with
      | .ok "tables" =>
        match (do let k ← (← j.getObjVal? "key").getStr?; let l ← Pr.load j; pure (k, l) : Except String (String × Pr.Loaded)) with
        | .ok (k, l) => do
          loaded := (k, l) :: loaded.filter (·.1 != k)
          pure (Json.mkObj [("loaded", .str k)])
        | .error e => pure (Json.mkObj [("driver_error", .str e)])
      | .ok "parse" =>
        match (j.getObjVal? "key").bind (·.getStr?) with
        | .ok k =>
          match loaded.find? (·.1 == k) with
          | some (_, l) => pure (match Pr.opParse l j with | .ok r => r | .error e => Json.mkObj [("driver_error", .str e)])
          | none => pure (Json.mkObj [("driver_error", .str s!"tables {k} not loaded")])
        | .error e => pure (Json.mkObj [("driver_error", .str e)])
      | _ => pure (match handle j with
        | .error e => Json.mkObj [("driver_error", .str e)]
        | .ok r => r)
  hout.putStrLn out.compress
  loop hin hout loaded

end Pysmi.Driver

def main : IO Unit := do
  let hin ← IO.getStdin
  let hout ← IO.getStdout
  Pysmi.Driver.loop hin hout []
  hout.flush
